#!/venv/bin/python
"""Confirm a seeded change produced by a sub-agent and record it under /verif/seeded/<name>/.

usage: ingest_seed.py <worktree> <name> <property> [checks=<ID,ID>] [tier=quick]

Everything is confirmed on scratch copies of /repo's working tree (never in /repo):
  1. the patch applies,
  2. the pinned baseline still passes with it (43/43),
  3. the demonstration passes on the unmodified tree and fails with the patch,
  4. the registered check(s) are run against the patched copy.
"""
import json
import os
import shutil
import subprocess
import sys
import tempfile
import time

wt, name, prop = sys.argv[1], sys.argv[2], sys.argv[3]
opts = dict(a.split("=", 1) for a in sys.argv[4:])
checks = opts.get("checks", prop).split(",")
tier = opts.get("tier", "quick")
src = os.path.join(wt, "seed")
dst = os.path.join("/verif/seeded", name)
os.makedirs(dst, exist_ok=True)
for f in ("patch.diff", "demo.py", "notes.md"):
    if wt != "-" and os.path.exists(os.path.join(src, f)):
        shutil.copy(os.path.join(src, f), os.path.join(dst, f))
patch = os.path.join(dst, "patch.diff")
if not os.path.exists(patch) or os.path.getsize(patch) == 0:
    r = subprocess.run(["git", "-C", wt, "diff", "--", "leuvenmapmatching"], capture_output=True, text=True)
    open(patch, "w").write(r.stdout)

work = tempfile.mkdtemp(prefix="seed-", dir="/dev/shm")
meta = {"name": name, "breaks_property": prop, "source": "independent sub-agent given only the property text and a scratch worktree",
        "ran": [], "confirmed": False}
try:
    clean = os.path.join(work, "clean")
    mut = os.path.join(work, "mut")
    for d in (clean, mut):
        subprocess.run(["rsync", "-a", "--exclude", ".git", "--exclude", "__pycache__", "--exclude", "build", "/repo/", d + "/"], check=True)
    r = subprocess.run(["patch", "-p1", "-s", "-d", mut, "-i", patch], capture_output=True, text=True)
    meta["patch_applies"] = r.returncode == 0
    if r.returncode:
        print("patch does not apply:", r.stdout, r.stderr)
        raise SystemExit(2)
    p = subprocess.run(["/verif/tools/baseline.py"], env=dict(os.environ, BASELINE_REPO=mut), capture_output=True, text=True)
    meta["baseline_with_patch"] = p.stdout.strip().splitlines()[0] if p.stdout.strip() else "?"
    meta["ran"].append("tools/baseline.py on the patched copy: " + meta["baseline_with_patch"])
    tests_ok = p.returncode == 0
    demo_src = open(os.path.join(dst, "demo.py")).read() if os.path.exists(os.path.join(dst, "demo.py")) else None
    demo = {}
    if demo_src:
        for tag, d in (("clean", clean), ("patched", mut)):
            f = os.path.join(work, f"demo_{tag}.py")
            import re as _re
            open(f, "w").write(_re.sub(r"/tmp/seed\d?/C\d\d", d, demo_src))
            q = subprocess.run(["/venv/bin/python", f], capture_output=True, text=True, timeout=900, cwd=d)
            demo[tag] = q.returncode
            meta["ran"].append(f"demo.py on the {tag} copy: exit {q.returncode}" + ("" if q.returncode == 0 else " :: " + (q.stderr.strip().splitlines() or ["?"])[-1][:200]))
    meta["demo_exit"] = demo
    meta["confirmed"] = bool(tests_ok and demo.get("clean") == 0 and demo.get("patched", 0) != 0)
    det = {}
    for c in checks:
        t = time.time()
        env = dict(os.environ, VERIF_REPO=mut, VERIF_EVIDENCE_DIR=os.path.join(work, "ev"), VERIF_REPLAY_DIR=os.path.join(work, "rp"))
        q = subprocess.run(["/verif/check", c, "--tier", tier], capture_output=True, text=True, env=env)
        lines = [l for l in q.stdout.splitlines() if l.startswith(("VIOLATION", "BROKEN", "  first"))]
        det[c] = {"tier": tier, "exit": q.returncode, "seconds": round(time.time() - t), "first": (lines[0][:400] if lines else "")}
        meta["ran"].append(f"./check {c} --tier {tier} against the patched copy: exit {q.returncode}")
        print(name, c, tier, "exit", q.returncode, f"{time.time() - t:.0f}s", (lines[0][:300] if lines else ""))
        # keep the first counterexample next to the seed
        rp = os.path.join(work, "rp")
        if os.path.isdir(rp):
            fs = sorted(os.listdir(rp))
            if fs:
                shutil.copy(os.path.join(rp, fs[0]), os.path.join(dst, f"counterexample-{c}.json"))
            shutil.rmtree(rp, ignore_errors=True)
    meta["detected_by"] = det
    if os.path.exists(os.path.join(dst, "notes.md")):
        notes = open(os.path.join(dst, "notes.md")).read()
        meta["needs_to_manifest"] = "see notes.md"
finally:
    shutil.rmtree(work, ignore_errors=True)
old = {}
mp = os.path.join(dst, "meta.json")
if os.path.exists(mp):
    old = json.load(open(mp))
    for k in ("needs_to_manifest", "what"):
        if k in old and old[k] != "see notes.md":
            meta[k] = old[k]
    prev = old.get("detected_by", {})
    prev.update(meta.get("detected_by", {}))
    meta["detected_by"] = prev
json.dump(meta, open(mp, "w"), indent=1)
print(name, "confirmed" if meta["confirmed"] else "NOT CONFIRMED", meta.get("baseline_with_patch"), meta.get("demo_exit"))
