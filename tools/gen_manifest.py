#!/venv/bin/python
"""Regenerate /verif/MANIFEST.json from the check modules that exist (checks/cNN.py with a MANIFEST dict)
and validate it against the schema."""
import importlib
import json
import os
import subprocess
import sys

HERE = os.path.dirname(os.path.dirname(os.path.abspath(__file__)))
sys.path.insert(0, HERE)
os.chdir(HERE)

ALL = [f"C{i:02d}" for i in range(1, 21)]
NOT_BUILT_REASON = "check not built yet in this session (planned, see DESIGN.md section 5); nothing is claimed for it"

checks, na = [], []
for pid in ALL:
    path = os.path.join(HERE, "checks", pid.lower() + ".py")
    if not os.path.exists(path):
        na.append({"property_id": pid, "reason": NOT_BUILT_REASON})
        continue
    mod = importlib.import_module("checks." + pid.lower())
    m = getattr(mod, "MANIFEST", None)
    if m is None:
        na.append({"property_id": pid, "reason": NOT_BUILT_REASON})
        continue
    checks.append({
        "property_id": pid,
        "quick_cmd": f"./check {pid} --tier quick",
        "thorough_cmd": f"./check {pid} --tier thorough",
        "evidence_file": f"/verif/evidence/{pid}.json",
        "replay_cmd_template": "./check replay {path}",
        "engine": "mc-explorer",
        "level_claimed": {"category": "model_checking", "text": m["text"], "design_ref": m.get("design_ref", f"DESIGN.md section 5, {pid}")},
        "level_note": m["note"],
        "technique": m["technique"],
    })

manifest = {
    "version": 1,
    "setup_cmd": "./check selftest",
    "hooks": {
        "guard": "LEUVENMAPMATCHING_VERIF",
        "enable": "no source hooks are needed: the checks import the package from /repo's working tree (mc/bind.py puts /repo "
                  "first on sys.path and refuses to run otherwise) and take control at run time from the harness "
                  "(shadowed module-global `set`, wrapped methods); the guard variable is exported for completeness",
        "baseline_off_cmd": "cd /repo && /venv/bin/python -m pytest -ra -q -p no:cacheprovider --timeout=900 --continue-on-collection-errors",
        "source_commits": [],
        "add_only": True,
    },
    "engines": [{
        "name": "mc-explorer",
        "path": "/verif/mc/engine.py",
        "serves_properties": [c["property_id"] for c in checks],
        "kind_free_text": "hand-written explicit-state / bounded-exhaustive explorer for Python: sharded complete enumeration of "
                          "finite input x configuration x history spaces on the real implementation, breadth-first search over "
                          "operation histories with canonical-state de-duplication, exhaustive exploration of set-iteration "
                          "orders under a controlled scheduler; reference models in mc/refgeom.py and mc/refmodel.py",
    }],
    "checks": checks,
    "not_applicable": na,
    "notes": "All checks: `./check <ID> --tier quick|thorough`; exit 0 = held on everything explored, exit 1 + VIOLATION line = "
             "violation with replay file, exit 2/3 = harness broken (not a verdict). Known findings are listed in "
             "/verif/known_findings.json and printed as KNOWN-FINDING lines. Genuine defects repaired in /repo are 'fix:' commits, "
             "recorded as 'fixed:' lines in the same file.",
}
if not na:
    manifest["not_applicable"] = []
with open(os.path.join(HERE, "MANIFEST.json"), "w") as f:
    json.dump(manifest, f, indent=1)
code = "import json,jsonschema;jsonschema.validate(json.load(open('MANIFEST.json')), json.load(open('/root/.vp/MANIFEST.schema.json')));print('MANIFEST valid,', len(json.load(open('MANIFEST.json'))['checks']), 'checks')"
sys.exit(subprocess.run(["python3-vt", "-c", code]).returncode)
