#!/venv/bin/python
"""Run the repository's pinned baseline (guard off) and compare with /root/.vp/BASELINE.json.
Exit 0 iff every stable_pass test passes."""
import json, os, subprocess, sys, tempfile, xml.etree.ElementTree as ET
base = json.load(open('/root/.vp/BASELINE.json'))
fd, xml = tempfile.mkstemp(suffix='.xml', dir='/dev/shm'); os.close(fd)
env = dict(os.environ); env.pop('LEUVENMAPMATCHING_VERIF', None)
tmpd = tempfile.mkdtemp(prefix='baseline-', dir='/dev/shm'); env['TMPDIR'] = tmpd  # tests write /tmp/map.sqlite: keep runs apart
subprocess.run(['/venv/bin/python', '-m', 'pytest', '-q', '-p', 'no:cacheprovider', '--timeout=900',
                '--continue-on-collection-errors', '--junitxml=' + xml], cwd=os.environ.get('BASELINE_REPO', '/repo'), env=env,
               stdout=subprocess.DEVNULL, stderr=subprocess.DEVNULL)
passed = set()
for tc in ET.parse(xml).getroot().iter('testcase'):
    if not any(ch.tag in ('failure', 'error', 'skipped') for ch in tc):
        passed.add(f"{tc.get('classname')}::{tc.get('name')}")
os.unlink(xml)
import shutil; shutil.rmtree(tmpd, ignore_errors=True)
missing = [t for t in base['stable_pass'] if t not in passed]
print(f"baseline: {len(base['stable_pass']) - len(missing)}/{len(base['stable_pass'])} stable tests pass")
for t in missing:
    print("  NOT PASSING:", t)
sys.exit(1 if missing else 0)
