#!/venv/bin/python
"""Rewrite the two generated tables of DESIGN.md: the seeded-change detection table (section 11.5, from seeded/*/meta.json via
tools/seed_table.py) and the measured-bounds table of the last full run (section 11.10, from evidence/*.json)."""
import json, glob, os, re, subprocess
p = '/verif/DESIGN.md'
s = open(p).read()
tab = subprocess.run(['/verif/tools/seed_table.py'], capture_output=True, text=True).stdout.strip('\n')
lines = s.split('\n')
i0 = next(i for i, l in enumerate(lines) if l.startswith('| seeded change | property |'))
i1 = i0
while i1 < len(lines) and lines[i1].startswith('|'):
    i1 += 1
lines[i0:i1] = tab.split('\n')
s = '\n'.join(lines)
rows = []
for f in sorted(glob.glob('/verif/evidence/C*.json')):
    e = json.load(open(f))
    def g(*names):
        for n in names:
            for d in (e, e.get('coverage', {}), e.get('stats', {}), e.get('counts', {})):
                if isinstance(d, dict) and n in d:
                    return d[n]
        return ''
    rows.append((os.path.basename(f)[:-5], g('cases'), g('evaluations', 'executions'), g('states'), g('transitions'), g('distinct_nontrivial', 'nontrivial'), g('exhaustive'), round(e.get('wall_s', 0))))
hdr = '### 11.10 Measured bounds of the last full quick run (generated from evidence/*.json)\n\n| id | cases | implementation executions | states | transitions | non-trivial | exhaustive | wall (s) |\n|----|------:|------:|------:|------:|------:|:---:|------:|\n'
body = '\n'.join('| ' + ' | '.join(str(x) for x in r) + ' |' for r in rows)
sec = hdr + body + '\n'
if '### 11.10 Measured bounds' in s:
    s = s[:s.index('### 11.10 Measured bounds')].rstrip('\n') + '\n\n' + sec
else:
    s = s.rstrip('\n') + '\n\n' + sec
open(p, 'w').write(s)
print('tables refreshed:', len(tab.split(chr(10))) - 2, 'seeded changes,', len(rows), 'evidence files')
