#!/venv/bin/python
"""Print the detection table of /verif/seeded/*/meta.json as markdown."""
import json, os, glob
rows = []
for mp in sorted(glob.glob('/verif/seeded/*/meta.json')):
    m = json.load(open(mp))
    det = m.get('detected_by', {})
    d = '; '.join(f"{c} {v['tier']}: {'**caught**' if v['exit'] == 1 else ('missed' if v['exit'] == 0 else 'harness error')}" for c, v in sorted(det.items()))
    rows.append((m['name'], m['breaks_property'], 'yes' if m.get('confirmed') else 'NO', d, m.get('what', '')))
print('| seeded change | property | confirmed (tests 43/43, demo passes clean / fails patched) | checks run against it | what it is |')
print('|---|---|---|---|---|')
for r in rows:
    print('| ' + ' | '.join(r) + ' |')
