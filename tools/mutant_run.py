#!/venv/bin/python
"""Apply a patch to /repo's working tree, run checks, undo.  usage: mutant_run.py <patch> <ID>[,<ID>...] [tier] [--tests]"""
import subprocess, sys, os, time
patch = os.path.abspath(sys.argv[1]); ids = sys.argv[2].split(','); tier = sys.argv[3] if len(sys.argv) > 3 and not sys.argv[3].startswith('--') else 'quick'
dirty = subprocess.run(['git', '-C', '/repo', 'status', '--porcelain', '--untracked-files=no'], capture_output=True, text=True).stdout.strip()
if dirty:
    print('refusing: /repo has uncommitted changes:\n' + dirty); sys.exit(2)
r = subprocess.run(['git', '-C', '/repo', 'apply', patch])
if r.returncode: sys.exit(2)
try:
    if '--tests' in sys.argv:
        subprocess.run(['/verif/tools/baseline.py'])
    sys.stdout.flush()
    for i in ids:
        t = time.time()
        p = subprocess.run(['/verif/check', i, '--tier', tier], capture_output=True, text=True)
        lines = [l for l in p.stdout.splitlines() if l.startswith(('VIOLATION', 'KNOWN', 'BROKEN', '  first'))]
        print(f"{os.path.basename(patch)} {i}: exit={p.returncode} {time.time()-t:.0f}s " + ' | '.join(l[:400] for l in lines))
        if p.returncode not in (0, 1): print(p.stdout[-1500:], p.stderr[-1500:])
finally:
    subprocess.run(['git', '-C', '/repo', 'checkout', '--', '.'])
