#!/venv/bin/python
"""Try a patch against the checks WITHOUT touching /repo: the working tree of /repo is copied to a scratch
directory under /dev/shm, the patch is applied there and the checks are pointed at the copy (VERIF_REPO);
evidence and replay files of these trial runs go to a scratch directory too.
usage: mutant_run.py <patch> <ID>[,<ID>...] [quick|thorough] [--tests] [--keep-replays DIR]"""
import os, shutil, subprocess, sys, tempfile, time
patch = os.path.abspath(sys.argv[1]); ids = sys.argv[2].split(',')
tier = sys.argv[3] if len(sys.argv) > 3 and not sys.argv[3].startswith('--') else 'quick'
work = tempfile.mkdtemp(prefix='mutrepo-', dir='/dev/shm')
repo = os.path.join(work, 'repo')
try:
    subprocess.run(['rsync', '-a', '--exclude', '.git', '--exclude', '__pycache__', '--exclude', 'build', '/repo/', repo + '/'], check=True)
    r = subprocess.run(['patch', '-p1', '-s', '-d', repo, '-i', patch])
    if r.returncode:
        print('patch does not apply'); sys.exit(2)
    env = dict(os.environ, VERIF_REPO=repo, VERIF_EVIDENCE_DIR=os.path.join(work, 'evidence'), VERIF_REPLAY_DIR=os.path.join(work, 'replays'),
               BASELINE_REPO=repo)
    if '--tests' in sys.argv:
        p = subprocess.run(['/verif/tools/baseline.py'], env=env, capture_output=True, text=True)
        print(os.path.basename(patch), 'tests:', p.stdout.strip().replace('\n', ' '))
    for i in ids:
        t = time.time()
        p = subprocess.run(['/verif/check', i, '--tier', tier], capture_output=True, text=True, env=env)
        lines = [l for l in p.stdout.splitlines() if l.startswith(('VIOLATION', 'BROKEN', '  first'))]
        print(f"{os.path.basename(patch)} {i}: exit={p.returncode} {time.time()-t:.0f}s " + ' | '.join(l[:500] for l in lines))
        if p.returncode not in (0, 1): print(p.stdout[-1500:], p.stderr[-1500:])
        sys.stdout.flush()
finally:
    shutil.rmtree(work, ignore_errors=True)
