from common import *
from replay import check_path, check_struct
import sys
part=int(sys.argv[1]); nparts=int(sys.argv[2])
import leuvenmapmatching.map.inmem as _im, importlib
pts2=[(0.03,0.01),(0.11,2.07),(2.05,0.13),(1.93,2.21),(0.9,4.1)]
obs2=[(0.21,0.34),(0.17,1.12),(1.08,0.97),(1.21,2.9),(0.7,3.9)]
kinds={}; cnt=0; nne=0
def rec(k,*a):
    kinds[k]=kinds.get(k,0)+1
    if kinds[k]<3: print(k,*a)
def chains():
    # 5-node chain both directions and one-way
    for bid in (True,False):
        g={i:(pts2[i],[]) for i in range(5)}
        order=[0,1,3,4]
        for a,b in zip(order,order[1:]):
            g[a][1].append(b)
            if bid: g[b][1].append(a)
        g[2][1].append(0); g[0][1].append(2)
        yield g
ci=0
def allgraphs():
    for alpha,(P,O) in (('gen',(pts2,obs2)),('grid',(pts,obsalpha))):
        for n in (2,3):
            for g0 in graphs(n): yield alpha,{k:(P[k],v[1]) for k,v in g0.items()},O[:4]
        for g0 in graphs(4,maxedges=4): yield alpha,{k:(P[k],v[1]) for k,v in g0.items()},O[:4]
    for g in chains(): yield 'gen',g,[obs2[0],obs2[3],obs2[4],obs2[1]]
for alpha,g,O in allgraphs():
    ci+=1
    if ci%nparts!=part: continue
    for T in (1,2,3):
      for path in itertools.product(O,repeat=T):
        for kind,oe in (('simple',True),('simple',False),('distance',True)):
          for ne in (False,True):
           for ag in (False,True):
            for W in (None,1):
              for cfg in (dict(),dict(max_dist=1.5,min_prob_norm=0.2),dict(obs_noise_ne=3.0)):
                kw=dict(non_emitting_states=ne,only_edges=oe,obs_noise=1.0,max_lattice_width=W,avoid_goingback=ag,**cfg)
                m=mk(g,kind,**kw); cnt+=1
                try: res=m.match(list(path),unique=False)
                except Exception as e: rec(('EXC',type(e).__name__,str(e)[:40]),g,path,kind,kw); continue
                if m.lattice_best and any(e.obs_ne for e in m.lattice_best): nne+=1
                vs=check_struct(m,path,res,False)
                for x in vs: rec(('STRUCT',alpha,x.split()[0],kind,oe,ne),g,path,kw,res,vs)
                vs=check_path(m,path,kind,g)
                for x in vs[:1]: rec(('PATH',alpha,' '.join(x.split()[1:3]),kind,oe,ne,ag,W),g,path,kw,vs[:2])
print('DONE',cnt,nne)
for k,v in sorted(kinds.items(),key=str): print(k,v)
