"""Scratch replay model for C02/C03/C05 (planar)."""
import math
LOG=math.log
def dist(p,q): return math.hypot(p[0]-q[0],p[1]-q[1])
def proj(p,a,b):
    l2=(a[0]-b[0])**2+(a[1]-b[1])**2
    if l2==0: return (a[0],a[1]),0.0
    t=((p[0]-a[0])*(b[0]-a[0])+(p[1]-a[1])*(b[1]-a[1]))/l2
    t=max(0.0,min(1.0,t))
    return (a[0]+t*(b[0]-a[0]),a[1]+t*(b[1]-a[1])),t
def orient(a,b,c): return (b[0]-a[0])*(c[1]-a[1])-(b[1]-a[1])*(c[0]-a[0])
def onseg(a,b,c): return min(a[0],b[0])<=c[0]<=max(a[0],b[0]) and min(a[1],b[1])<=c[1]<=max(a[1],b[1])
def intersect(a,b,c,d):
    o1,o2,o3,o4=orient(a,b,c),orient(a,b,d),orient(c,d,a),orient(c,d,b)
    if o1*o2<0 and o3*o4<0: return True
    return (o1==0 and onseg(a,b,c)) or (o2==0 and onseg(a,b,d)) or (o3==0 and onseg(c,d,a)) or (o4==0 and onseg(c,d,b))
def segseg(a,b,c,d):
    if intersect(a,b,c,d): return 0.0
    return min(dist(proj(a,c,d)[0],a),dist(proj(b,c,d)[0],b),dist(proj(c,a,b)[0],c),dist(proj(d,a,b)[0],d))

def check_path(m, path, kind, graph, tol=1e-9):
    """m: matcher after match; returns list of violation strings"""
    v=[]
    lb=m.lattice_best
    if not lb: return v
    def close(a,b): return abs(a-b)<=tol*max(1.0,abs(a),abs(b))
    ne_len=m.ne_length_factor_log
    avoid=getattr(m,'avoid_goingback',True)
    prev=None; pprev=None
    R={}  # reference chain values
    for j,e in enumerate(lb):
        s=e.edge_m; isnode=s.l2 is None
        i=e.obs; k=e.obs_ne
        # --- geometry
        if k==0:
            o=path[i][:2]
            if isnode: d=dist(s.p1,o); pim=tuple(s.p1); tim=0
            else:
                pim,tim=proj(o,s.p1,s.p2); d=dist(pim,o)
                if dist(pim,s.pi)>1e-9: v.append(f"[{j}] pi {s.pi} != nearest {pim}")
                if s.p1!=s.p2 and abs(tim-s.ti)>1e-9: v.append(f"[{j}] ti {s.ti} != {tim}")
            pio=o
        else:
            o1,o2=path[i][:2],path[i+1][:2]
            if isnode:
                pio,tio=proj(s.p1,o1,o2); d=dist(pio,s.p1); pim=tuple(s.p1)
            else:
                d=segseg(s.p1,s.p2,o1,o2)
                pim=s.pi; pio=e.edge_o.pi
                # witness validation
                if abs(dist(pim,pio)-d)>1e-9: v.append(f"[{j}] NE witness points distance {dist(pim,pio)} != true {d}")
        if not close(e.dist_obs,d): v.append(f"[{j}] dist_obs {e.dist_obs} != true {d}")
        # --- scores
        sig=(m.obs_noise_ne if k else m.obs_noise)
        lpo=-d*d/(2*sig*sig)
        if prev is None:
            lp=lpo; lpe=lp; lpne=0; length=1; d_o=d_s=0.0
        else:
            p=prev
            ps=p.edge_m
            # use implementation pi's (validated) for transition
            cur_pim = tuple(s.p1) if isnode else s.pi
            prev_pim = tuple(ps.p1) if ps.l2 is None else ps.pi
            cur_pio = e.edge_o.pi; prev_pio=p.edge_o.pi
            same_label = (ps.l1,ps.l2)==(s.l1,s.l2)
            if kind=='simple':
                lpt=0.0
                if same_label:
                    if avoid and s.ti < ps.ti: lpt+=LOG(0.99)
                else:
                    lpt+=LOG(0.9)
                    if avoid and pprev is not None and (pprev.edge_m.l1,pprev.edge_m.l2)==(s.l1,s.l2): lpt+=LOG(0.5)
            else:
                d_z=dist(prev_pio,cur_pio)
                rev=(ps.l1,ps.l2)==(s.l2,s.l1)
                if same_label or rev or ps.l2!=s.l1: d_x=dist(prev_pim,cur_pim)
                else: d_x=dist(prev_pim,ps.p2)+dist(ps.p2,cur_pim)
                if k: d_z+=R['d_o']; d_x+=R['d_s']
                beta=2*(m.dist_noise_ne if (k or p.obs_ne) else m.dist_noise)**2
                lpt=-(abs(d_z-d_x))**2/beta
                if same_label:
                    if avoid and s.ti<ps.ti: lpt+=LOG(0.5)
                elif rev:
                    if avoid: lpt+=LOG(0.5)
                else:
                    if ps.l2!=s.l1: lpt+=LOG(0.5)
                    elif avoid and pprev is not None and (pprev.edge_m.l1,pprev.edge_m.l2)==(s.l1,s.l2): lpt+=LOG(0.5)
                d_o,d_s=d_z,d_x
            delta=lpt+lpo
            if k==0:
                lp=R['lp']+delta; lpe=lp; lpne=0; length=R['len']+1
            else:
                lpe=R['lpe']+ne_len; lpne=min(R['lpne'],delta); lp=lpe+lpne; length=R['len']
        R=dict(lp=lp,lpe=lpe,lpne=lpne,len=length,d_o=d_o if prev is not None and kind!='simple' else 0.0,d_s=d_s if prev is not None and kind!='simple' else 0.0)
        if not close(e.logprob,lp): v.append(f"[{j}] logprob {e.logprob} != model {lp} key={e.key}")
        if e.length!=length: v.append(f"[{j}] length {e.length} != {length}")
        if kind!='simple' and prev is not None:
            if not close(e.d_o,R['d_o']) or not close(e.d_s,R['d_s']): v.append(f"[{j}] d_o/d_s {e.d_o},{e.d_s} != {R['d_o']},{R['d_s']}")
        # C05 cutoffs
        md = m.max_dist
        if j==0:
            if not d < m.max_dist_init + 1e-12: v.append(f"[{j}] first dist {d} >= max_dist_init")
        if d>md*(1+1e-12): v.append(f"[{j}] dist {d} > max_dist {md}")
        if lp/length < m.min_logprob_norm-1e-12: v.append(f"[{j}] norm logprob below min")
        pprev=prev; prev=e
    return v

def check_struct(m,path,res,unique):
    v=[]; states,idx=res; lb=m.lattice_best
    if states==[] or states is None:
        if states is None: v.append("states None")
        if idx!=0: v.append("empty with idx!=0")
        return v
    keys=[(e.obs,e.obs_ne) for e in lb]
    if keys[0]!=(0,0): v.append(f"first key {keys[0]}")
    for a,b in zip(keys,keys[1:]):
        if not (b==(a[0],a[1]+1) or b==(a[0]+1,0)): v.append(f"bad succession {a}->{b}")
    last_e=max(i for i,k in keys if k==0)
    if idx!=last_e: v.append(f"idx {idx} != last emitting {last_e}")
    sk=[e.shortkey for e in lb]
    if unique:
        col=[x for i,x in enumerate(sk) if i==0 or x!=sk[i-1]]
        if states!=col: v.append("unique list mismatch")
    else:
        if states!=sk: v.append("list mismatch")
    return v
