from common import *
# C06: NE on vs off
cnt=bad=0
cfgs=[dict(),dict(max_dist=1.5),dict(min_prob_norm=0.3)]
for n in (2,3):
  for g in graphs(n):
    for T in (1,2,3):
      for path in itertools.product(obsalpha[:4],repeat=T):
        for kind in ('simple','distance'):
          for oe in ((True,False) if kind=='simple' else (True,)):
            for cfg in cfgs:
                r=[]
                for ne in (False,True):
                    m=mk(g,kind,non_emitting_states=ne,only_edges=oe,avoid_goingback=False,obs_noise=1.0,**cfg)
                    try: res=m.match(list(path)); r.append((canon(m,res), m))
                    except Exception as e: r.append((('EXC',repr(e)),m))
                cnt+=1
                (a,ma),(b,mb)=r
                ok = a[0]!='EXC' and b[0]!='EXC' and b[0]>=a[0]
                if ok and a[0]==len(path)-1 and b[0]==len(path)-1 and a[1] is not None:
                    # best emitting in last col
                    be=max(x.logprob for x in mb.lattice[len(path)-1].values(0) if not x.stop)
                    ok = be>=a[1]-1e-9
                if not ok:
                    bad+=1
                    if bad<12: print("C06",g,path,kind,oe,cfg,a,b)
print(cnt,bad)
