from common import *
# C08 with widths, multi-split
pts2=[(0.03,0.01),(0.11,2.07),(2.05,0.13),(1.93,2.21)]
obs2=[(0.21,0.34),(0.17,1.12),(1.08,0.97),(1.21,2.9)]
kinds={}
def rec(k,*a):
    kinds[k]=kinds.get(k,0)+1
    if kinds[k]<3: print(k,*a)
import random; random.seed(3)
G=[{k:(pts2[k],v[1]) for k,v in g0.items()} for g0 in graphs(3)]+[{k:(pts2[k],v[1]) for k,v in g0.items()} for g0 in graphs(4,maxedges=5)]
random.shuffle(G); cnt=0
for g in G[:150]:
    for path in itertools.product(obs2,repeat=4):
        if random.random()>0.08: continue
        for kind,oe in (('simple',True),('simple',False),('distance',True)):
          for ne in (False,True):
            for W in (1,2):
              for cfg in (dict(),dict(max_dist=1.5)):
                kw=dict(non_emitting_states=ne,only_edges=oe,obs_noise=1.0,max_lattice_width=W,**cfg)
                m=mk(g,kind,**kw); ref=canon(m,m.match(list(path)))
                for cuts in ((1,),(2,),(3,),(1,2),(1,3),(2,3),(1,2,3)):
                    m2=mk(g,kind,**kw); cnt+=1
                    try:
                        m2.match(list(path[:cuts[0]]))
                        for c in cuts[1:]+(4,): got=canon(m2,m2.match(list(path[:c]),expand=True))
                    except Exception as e: got=('EXC',repr(e)[:50])
                    if got!=ref: rec((kind,oe,ne,W,tuple(cfg),'idx' if got[0]!=ref[0] else 'lp' if got[1]!=ref[1] else 'path'),g,path,cuts,ref,got)
print(cnt)
for k,v in sorted(kinds.items(),key=str): print(k,v)
