import math, itertools, numpy as np, logging
from leuvenmapmatching.map.inmem import InMemMap
from leuvenmapmatching.matcher.simple import SimpleMatcher
from leuvenmapmatching.matcher.distance import DistanceMatcher
import leuvenmapmatching.util.dist_latlon as dll
logging.getLogger("be.kuleuven.cs.dtai.mapmatching").setLevel(logging.ERROR)
R=6371000
def vec(p):
    la,lo=math.radians(p[0]),math.radians(p[1]); return np.array([math.cos(la)*math.cos(lo),math.cos(la)*math.sin(lo),math.sin(la)])
def ang(u,v): return math.atan2(np.linalg.norm(np.cross(u,v)),float(np.dot(u,v)))
def gd(p,q): return R*ang(vec(p),vec(q))
def ll(v):
    v=v/np.linalg.norm(v); return (math.degrees(math.asin(v[2])),math.degrees(math.atan2(v[1],v[0])))
def p2s(p,a,b):
    A,B,P=vec(a),vec(b),vec(p); n=np.cross(A,B); nn=np.linalg.norm(n)
    if nn<1e-15: return gd(p,a),a,0.0
    n=n/nn; Q=P-np.dot(P,n)*n; Q=Q/np.linalg.norm(Q); dab=ang(A,B)
    t=math.atan2(float(np.dot(np.cross(A,Q),n)),float(np.dot(A,Q)))/dab
    if t<=0: return gd(p,a),a,0.0
    if t>=1: return gd(p,b),b,1.0
    return R*ang(P,Q),ll(Q),t
def dest(p,b,d):
    la,lo=dll.destination_radians(math.radians(p[0]),math.radians(p[1]),b,d); return (math.degrees(la),math.degrees(lo))
def to_ll(anchor,p):
    y,x=p; d=math.hypot(x,y)
    return anchor if d==0 else dest(anchor,math.atan2(x,y),d)
S=40.0
from common import graphs, pts, obsalpha
pts2=[(0.03,0.01),(0.11,2.07),(2.05,0.13),(1.93,2.21)]
obs2=[(0.21,0.34),(0.17,1.12),(1.08,0.97),(1.21,2.9)]
kinds={}; cnt=0; mx=[0,0,0]
def rec(k,*a):
    kinds[k]=kinds.get(k,0)+1
    if kinds[k]<3: print(k,*a)
for anchor in [(50.86,4.7),(-33.3,-70.1),(59.9,178.5)]:
 for alpha,(P,O) in (('gen',(pts2,obs2)),('grid',(pts,obsalpha[:4]))):
  for g0 in list(graphs(3))[::2]:
    gl={k:(to_ll(anchor,(P[k][0]*S,P[k][1]*S)),v[1]) for k,v in g0.items()}
    for T in (2,3):
      for path0 in itertools.product(O,repeat=T):
        pl=[to_ll(anchor,(p[0]*S,p[1]*S)) for p in path0]
        for kind,oe in (('simple',True),('simple',False),('distance',True)):
          for ne in (False,True):
            for cfg in (dict(max_dist_init=1e5),dict(max_dist=60.0,min_prob_norm=0.2)):
                mp=InMemMap("m",use_latlon=True,graph={k:(v[0],list(v[1])) for k,v in gl.items()})
                kw=dict(non_emitting_states=ne,obs_noise=40.0,**cfg)
                m=(SimpleMatcher(mp,only_edges=oe,**kw) if kind=='simple' else DistanceMatcher(mp,**kw)); cnt+=1
                try: res=m.match(list(pl))
                except Exception as e: rec(('EXC',alpha,kind,oe,ne,type(e).__name__,str(e)[:40]),anchor,gl,pl); continue
                for j,e in enumerate(m.lattice_best or []):
                    if e.obs_ne: continue
                    o=pl[e.obs]; s=e.edge_m
                    if s.l2 is None: d=gd(s.p1,o); 
                    else:
                        d,pi,t=p2s(o,s.p1,s.p2)
                        e2=gd(pi,s.pi); e3=abs(t-s.ti)*gd(s.p1,s.p2)
                        mx[1]=max(mx[1],e2); mx[2]=max(mx[2],e3)
                        if e2>0.25 or e3>0.25: rec(('proj',alpha,kind,oe,ne),anchor,gl,pl,j,s.pi,pi,s.ti,t)
                    mx[0]=max(mx[0],abs(d-e.dist_obs))
                    if abs(d-e.dist_obs)>0.05: rec(('dist',alpha,kind,oe,ne),anchor,gl,pl,j,d,e.dist_obs)
                    if 'max_dist' in cfg and d>60.0+0.05: rec(('cutoff',alpha,kind,oe,ne),anchor,gl,pl,j,d)
print(cnt,mx)
for k,v in sorted(kinds.items(),key=str): print(k,v)
