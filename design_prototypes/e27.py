import math, itertools, numpy as np
import leuvenmapmatching.util.dist_euclidean as de
import leuvenmapmatching.util.dist_latlon as dll
R=6371000
def vec(p):
    la,lo=math.radians(p[0]),math.radians(p[1]); return np.array([math.cos(la)*math.cos(lo),math.cos(la)*math.sin(lo),math.sin(la)])
def ang(u,v): return math.atan2(np.linalg.norm(np.cross(u,v)),float(np.dot(u,v)))
def check(path,out,dd,latlon):
    errs=[]
    if out[0]!=path[0] or out[-1]!=path[-1]: errs.append('ends')
    # match originals greedily in order; everything between consecutive originals are inserted points
    idx=[]; j=0
    for p in path:
        while j<len(out) and out[j]!=p: j+=1
        if j==len(out): errs.append('orig missing'); return errs
        idx.append(j); j+=1
    if idx[0]!=0: errs.append('prefix')
    for (a,ia),(b,ib) in zip(zip(path,idx),zip(path[1:],idx[1:])):
        ins=out[ia+1:ib]; prevt=0.0
        for q in ins:
            if latlon:
                A,B,Q=vec(a),vec(b),vec(q); dab=ang(A,B)
                if dab==0: off=R*ang(A,Q); t=0
                else:
                    n=np.cross(A,B); n/=np.linalg.norm(n); off=abs(R*math.asin(max(-1,min(1,float(np.dot(Q,n))))))
                    t=math.atan2(float(np.dot(np.cross(A,Q),n)),float(np.dot(A,Q)))/dab
                tol=1e-3; ttol=1e-3/(R*dab) if dab else 0
            else:
                l2=(a[0]-b[0])**2+(a[1]-b[1])**2
                if l2==0: off=math.dist(a[:2],q); t=0
                else:
                    t=((q[0]-a[0])*(b[0]-a[0])+(q[1]-a[1])*(b[1]-a[1]))/l2
                    off=abs((q[0]-a[0])*(b[1]-a[1])-(q[1]-a[1])*(b[0]-a[0]))/math.sqrt(l2)
                tol=1e-9*(1+math.sqrt(l2)); ttol=1e-9
            if off>tol: errs.append(f'off segment {off}')
            if t<-ttol or t>1+ttol: errs.append(f't out {t}')
            if t<prevt-ttol: errs.append('order')
            prevt=t
    D=(lambda p,q: dll.distance(p,q)) if latlon else (lambda p,q: math.dist(p[:2],q[:2]))
    for p,q in zip(out,out[1:]):
        if D(p,q)>dd*(1+(1e-6 if latlon else 1e-9))+1e-12: errs.append(f'gap {D(p,q)}')
    return errs
bad=cnt=0
P=[(0,0),(0,3),(4,0),(1.5,2.5),(0,0.1),(0.1,0.7)]
for T in (1,2,3):
  for path in itertools.product(P,repeat=T):
    for dd in (0.3,1,2.5,5,100,0.7,0.1):
        cnt+=1; out=de.interpolate_path(list(path),dd); e=check(path,out,dd,False)
        if e: bad+=1; print('euc',path,dd,e[:3]) if bad<5 else None
print(cnt,bad)
def dest(p,b,d):
    la,lo=dll.destination_radians(math.radians(p[0]),math.radians(p[1]),b,d); return (math.degrees(la),math.degrees(lo))
cnt=bad=0
for A in ((50.0,4.0),(-33.3,-70.1),(59.9,178.5),(0.0,0.0)):
  Q=[A,dest(A,0.3,120.0),dest(A,2.0,35.0),dest(A,4.0,1000.0),dest(A,5.0,3.0)]
  for T in (1,2,3):
    for path in itertools.product(Q,repeat=T):
      for dd in (10,50,333,5000,2.9):
        cnt+=1; out=dll.interpolate_path(list(path),dd); e=check(path,out,dd,True)
        if e: bad+=1; print('ll',path,dd,e[:3]) if bad<5 else None
print(cnt,bad)
