from common import *
import leuvenmapmatching.map.inmem as _im, importlib
importlib.reload(_im); InMemMap=_im.InMemMap
from leuvenmapmatching.map.sqlite import SqliteMap
import tempfile, os, shutil, io, contextlib
d=tempfile.mkdtemp(dir='/dev/shm')
ptsf=[(0.0,0.5),(0.25,2.0),(2.0,0.125),(1.5,2.5)]
kinds={}; cnt=0
def rec(k,*a):
    kinds[k]=kinds.get(k,0)+1
    if kinds[k]<3: print(k,*a)
boxes=[(-1,-1,3,3),(0.0,0.5,2.0,2.0),(0.1,0.1,1.9,2.4),(0.25,0.125,1.5,2.5)]
def norm_nodes(x): return sorted((k,tuple(map(float,p))) for k,p in x)
def norm_edges(x): return sorted((a,tuple(map(float,pa)),b,tuple(map(float,pb))) for a,pa,b,pb in x)
i=0
for n in (2,3,4):
  for g0 in graphs(n,maxedges=5):
    g={k:(ptsf[k],v[1]) for k,v in g0.items()}
    for latlon in (False,):
        i+=1
        im=InMemMap("m",use_latlon=latlon,graph={k:(v[0],list(v[1])) for k,v in g.items()})
        sm=SqliteMap(f"s{i}",use_latlon=latlon,dir=d)
        sm.add_nodes([(k,v[0]) for k,v in g.items()])
        sm.add_edges([(a,b) for a,v in g.items() for b in v[1]])
        cnt+=1
        if im.size()!=sm.size(): rec('size',g)
        if sorted(im.labels())!=sorted(sm.labels()): rec('labels',g)
        for k in g:
            if tuple(im.node_coordinates(k))!=tuple(sm.node_coordinates(k)): rec('coords',g,k,im.node_coordinates(k),sm.node_coordinates(k))
            a=sorted(x for x in norm_nodes(im.nodes_nbrto(k)) if x[0]!=k); b=norm_nodes(sm.nodes_nbrto(k))
            if a!=b: rec('nodes_nbrto',g,k,a,b)
        for a_,v in g.items():
            for b_ in v[1]:
                a=[x for x in norm_edges(im.edges_nbrto((a_,b_))) if x[0]!=x[2]]; b=norm_edges(sm.edges_nbrto((a_,b_)))
                if a!=b: rec('edges_nbrto',g,(a_,b_),a,b)
        if norm_edges(im.all_edges())!=norm_edges(sm.all_edges()): rec('all_edges',g)
        if tuple(map(float,im.bb()))!=tuple(map(float,sm.bb())): rec('bb',g,im.bb(),sm.bb())
        for bb in boxes:
            if norm_nodes(im.all_nodes(bb=bb))!=norm_nodes(sm.all_nodes(bb=bb)): rec('all_nodes(bb)',g,bb,norm_nodes(im.all_nodes(bb=bb)),norm_nodes(sm.all_nodes(bb=bb)))
        # matching
        for path in ([(0.2,0.6),(0.3,1.7)],[(0.2,0.6),(1.1,1.0),(1.4,2.4)]):
          for ne in (False,True):
            r=[]
            for mp in (im,sm):
                m=DistanceMatcher(mp,non_emitting_states=ne,obs_noise=1.0)
                with contextlib.redirect_stdout(io.StringIO()):
                    try: res=m.match(path); r.append(canon(m,res)[:2])
                    except Exception as e: r.append(('EXC',repr(e)))
            if r[0]!=r[1]: rec('match',g,path,ne,r)
        sm.db.close()
shutil.rmtree(d)
print(cnt); print(kinds)
