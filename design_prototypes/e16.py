from common import *
from inv import lattice_invariants
import inv
# C09: BFS over op histories with invariants (live := not stop)
pts2=[(0.03,0.01),(0.11,2.07),(2.05,0.13),(1.93,2.21)]
obs2=[(0.21,0.34),(0.17,1.12),(1.08,0.97),(1.21,2.9)]
kinds={}
def rec(k,*a):
    kinds[k]=kinds.get(k,0)+1
    if kinds[k]<3: print(k,*a)
def snapshot(m):
    if m.lattice is None: return None
    out=[]
    for i,col in sorted(m.lattice.items()):
        for k,layer in enumerate(col.o):
            for key,e in layer.items():
                out.append((key,round(float(e.logprob),9),e.delayed,e.stop,tuple(sorted(p.key for p in e.prev))))
    return (tuple(sorted(out,key=str)),m.expand_now,m.max_lattice_width,len(m.path))
def apply(m,op,path):
    if op[0]=='M': return m.match(list(path[:op[1]]))
    if op[0]=='X': return m.match(list(path[:op[1]]),expand=True)
    if op[0]=='W': return m.increase_max_lattice_width(op[1])
    if op[0]=='C': return m.continue_with_distance()
def enabled(m,path):
    ops=[]
    cur=len(m.path) if m.path else 0
    if cur==0: return [('M',k) for k in range(1,len(path)+1)]
    for k in range(cur+1,len(path)+1): ops.append(('X',k))
    ops.append(('X',cur))
    w=m.max_lattice_width or 0
    for W in (1,2,3):
        if W>w: ops.append(('W',W))
    ops.append(('C',))
    return ops
states=0; trans=0
import collections
def bfs(g,path,kind,oe,ne,W,cfg,depth=3):
    global states,trans
    def build(hist):
        m=mk(g,kind,non_emitting_states=ne,only_edges=oe,obs_noise=1.0,max_lattice_width=W,**cfg)
        exc=None
        for op in hist:
            try: apply(m,op,path)
            except Exception as e: exc=(op,type(e).__name__,str(e)[:50])
        return m,exc
    seen=set(); fr=collections.deque([()])
    while fr:
        h=fr.popleft()
        m,_=build(h)
        if len(h)>=depth: continue
        for op in enabled(m,path):
            m2,exc=build(h+(op,)); trans+=1
            if exc: rec(('EXC',exc[0][0],exc[1],exc[2]),g,path,kind,oe,ne,W,cfg,h+(op,))
            live_def=lambda x: not x.stop
            vs=[v for v in lattice_invariants(m2) if not v.startswith('live')]
            # live := not stop
            for i,col in m2.lattice.items():
                for layer in col.o:
                    for e in layer.values():
                        for p in e.prev:
                            if (not e.stop) and p.stop: vs.append(f"live(nonstop) with stopped prev {e.key}")
            if vs: rec(('INV',vs[0].split()[0],vs[0].split()[1] if len(vs[0].split())>1 else '',op[0],kind,oe,ne),g,path,kind,oe,ne,W,cfg,h+(op,),vs[:2])
            k=snapshot(m2)
            if k not in seen:
                seen.add(k); states+=1
                if not exc: fr.append(h+(op,))
import random
random.seed(1)
G=[ {k:(pts2[k],v[1]) for k,v in g0.items()} for g0 in graphs(3)]+[{k:(pts2[k],v[1]) for k,v in g0.items()} for g0 in graphs(4,maxedges=4)]
random.shuffle(G)
for g in G[:60]:
    for path in [ (obs2[0],obs2[1],obs2[3]), (obs2[1],obs2[2],obs2[0],obs2[3]) ]:
        for kind,oe in (('simple',True),('simple',False),('distance',True)):
          for ne in (False,True):
            for cfg in (dict(),dict(max_dist=1.5)):
                bfs(g,path,kind,oe,ne,1,cfg,depth=3)
print('states',states,'trans',trans)
for k,v in sorted(kinds.items(),key=str): print(k,v)
