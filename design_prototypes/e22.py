from common import *
import leuvenmapmatching.matcher.base as B
import itertools
class PermSet(set):
    policy=None   # function: list -> list
    def __init__(self,*a):
        super().__init__(*a); self._order=[]
        for x in set.__iter__(self): self._order.append(x)
    def add(self,x):
        if not set.__contains__(self,x): self._order.append(x)
        set.add(self,x)
    def update(self,*its):
        for it in its:
            for x in it: self.add(x)
    def __iter__(self):
        items=[x for x in self._order if set.__contains__(self,x)]
        pol=PermSet.policy
        return iter(pol(items) if pol else items)
B.set=PermSet
g={0:((0,0),[2]),1:((0,2),[]),2:((2,0),[])}
path=((0,0),(1,1),(1,3))
outs=set()
def perm_policies(maxn=4):
    yield lambda l:l
    yield lambda l:l[::-1]
    for r in range(1,4): yield (lambda r:(lambda l:l[r%len(l):]+l[:r%len(l)] if l else l))(r)
for pol in perm_policies():
    PermSet.policy=staticmethod(pol)
    m=mk(g,'simple',non_emitting_states=True,only_edges=False,obs_noise=1.0,max_dist=1.5)
    res=m.match(list(path)); outs.add(repr(canon(m,res)))
print(len(outs)); [print(o) for o in outs]
