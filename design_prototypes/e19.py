from common import *
import leuvenmapmatching.util.dist_latlon as dll
import leuvenmapmatching.map.inmem as _im, importlib
importlib.reload(_im); InMemMap=_im.InMemMap
def dest(p,b,d):
    la,lo=dll.destination_radians(math.radians(p[0]),math.radians(p[1]),b,d); return (math.degrees(la),math.degrees(lo))
def to_ll(anchor,p):
    y,x=p; d=math.hypot(x,y)
    return anchor if d==0 else dest(anchor,math.atan2(x,y),d)
S=40.0
pts2=[(0.03*S,0.01*S),(0.11*S,2.07*S),(2.05*S,0.13*S),(1.93*S,2.21*S)]
obs2=[(0.21*S,0.34*S),(0.17*S,1.12*S),(1.08*S,0.97*S),(1.21*S,2.9*S)]
kinds={}; cnt=0; maxrel=0
def rec(k,*a):
    kinds[k]=kinds.get(k,0)+1
    if kinds[k]<3: print(k,*a)
for anchor in [(0.0,0.0),(50.86,4.7),(-33.3,-70.1),(59.9,179.0-0.5),(12.0,-170.0)]:
  for g0 in list(graphs(3))[::3]:
    g={k:(pts2[k],v[1]) for k,v in g0.items()}
    gl={k:(to_ll(anchor,v[0]),v[1]) for k,v in g.items()}
    for T in (2,3):
      for path in itertools.product(obs2,repeat=T):
        pl=[to_ll(anchor,p) for p in path]
        for kind,oe in (('simple',True),('simple',False),('distance',True)):
            r=[]
            for gg,pp,ll in ((g,path,False),(gl,pl,True)):
                mp=InMemMap("m",use_latlon=ll,graph={k:(v[0],list(v[1])) for k,v in gg.items()})
                kw=dict(non_emitting_states=False,obs_noise=20.0,max_dist_init=1e5)
                m=(SimpleMatcher(mp,only_edges=oe,**kw) if kind=='simple' else DistanceMatcher(mp,**kw))
                try: res=m.match(list(pp)); r.append((res[1],float(m.lattice_best[-1].logprob) if m.lattice_best else None))
                except Exception as e: r.append(('EXC',repr(e)[:60]))
            cnt+=1
            a,b=r
            if a[0]!=b[0] or 'EXC' in (a[0],b[0]): rec(('idx/exc',kind,oe),anchor,g,path,a,b)
            elif a[1] is not None:
                rel=abs(a[1]-b[1])/max(1e-12,abs(a[1])); maxrel=max(maxrel,rel)
                if rel>1e-3 and abs(a[1]-b[1])>1e-6: rec(('lp',kind,oe),anchor,g,path,a,b)
print(cnt,maxrel); print(kinds)
