import sys, os, io, contextlib, itertools, math, tempfile, shutil, logging
import numpy as np
which=sys.argv[1]
if which=='fix': sys.path.insert(0,'/tmp/explore/repo_fix')
import leuvenmapmatching
from leuvenmapmatching.map.inmem import InMemMap
from leuvenmapmatching.map.sqlite import SqliteMap
import leuvenmapmatching.util.dist_latlon as dll
logging.getLogger("be.kuleuven.cs.dtai.mapmatching").setLevel(logging.ERROR)
print(leuvenmapmatching.__file__)
R=6371000
def vec(p):
    la,lo=math.radians(p[0]),math.radians(p[1]); return np.array([math.cos(la)*math.cos(lo),math.cos(la)*math.sin(lo),math.sin(la)])
def ang(u,v): return math.atan2(np.linalg.norm(np.cross(u,v)),float(np.dot(u,v)))
def gd(p,q): return R*ang(vec(p),vec(q))
def sp2s(p,a,b):
    A,B,P=vec(a),vec(b),vec(p); n=np.cross(A,B); nn=np.linalg.norm(n)
    if nn<1e-15: return gd(p,a)
    n=n/nn; Q=P-np.dot(P,n)*n; Q=Q/np.linalg.norm(Q); dab=ang(A,B)
    t=math.atan2(float(np.dot(np.cross(A,Q),n)),float(np.dot(A,Q)))/dab
    if t<=0: return gd(p,a)
    if t>=1: return gd(p,b)
    return R*ang(P,Q)
def pd(p,q): return math.hypot(p[0]-q[0],p[1]-q[1])
def pp2s(p,a,b):
    l2=(a[0]-b[0])**2+(a[1]-b[1])**2
    if l2==0: return pd(p,a)
    t=max(0,min(1,((p[0]-a[0])*(b[0]-a[0])+(p[1]-a[1])*(b[1]-a[1]))/l2))
    return pd(p,(a[0]+t*(b[0]-a[0]),a[1]+t*(b[1]-a[1])))
def dest(p,b,d):
    la,lo=dll.destination_radians(math.radians(p[0]),math.radians(p[1]),b,d); return (math.degrees(la),math.degrees(lo))
# shapes in "units": 5 nodes incl long edge 0-1 spanning far beyond radii
shape=[(0.0,-10.0),(0.0,10.0),(1.0,0.5),(2.0,-1.0),(-1.5,1.0)]
edgesets=[[(0,1),(1,0),(2,3)],[(0,1),(2,3),(3,4),(4,2),(2,0)],[(1,0),(3,2),(4,0),(0,4)]]
qs=[(y,x) for y in (-2.0,-0.5,0.0,0.5,1.0,2.5) for x in (-3.0,-1.0,0.0,0.5,2.0)]
radii=[0.4,0.5,0.51,1.0,1.6,3.0,30.0]
kinds={}
def rec(k,*a):
    kinds[k]=kinds.get(k,0)+1
    if kinds[k]<3: print(k,*a)
d=tempfile.mkdtemp(dir='/dev/shm'); si=0; cnt=0
frames=[('unit',False,lambda p:p,1.0),('metres1e7',False,lambda p:(6007518.4+p[0]*10,-13607641.0+p[1]*10),10.0),
        ('deg',False,lambda p:(50.0+p[0]*1e-4,4.0+p[1]*1e-4),1e-4),
        ('latlon50',True,lambda p:((50.86,4.7) if p==(0,0) else dest((50.86,4.7),math.atan2(p[1],p[0]),math.hypot(*p)*20.0)),20.0),
        ('latlon-33',True,lambda p:((-33.3,-70.1) if p==(0,0) else dest((-33.3,-70.1),math.atan2(p[1],p[0]),math.hypot(*p)*20.0)),20.0)]
for fname,latlon,f,unit in frames:
    D = gd if latlon else pd
    P2S = sp2s if latlon else pp2s
    for es in edgesets:
        nodes={i:f(p) for i,p in enumerate(shape)}
        g={i:(nodes[i],[b for a,b in es if a==i]) for i in nodes}
        im=InMemMap("m",use_latlon=latlon,graph={k:(v[0],list(v[1])) for k,v in g.items()})
        si+=1; sm=SqliteMap(f"s{si}",use_latlon=latlon,dir=d); sm.add_nodes([(k,v[0]) for k,v in g.items()]); sm.add_edges(es)
        for q0 in qs:
            q=f(q0)
            for r0 in radii:
                r=r0*unit
                for bname,mp in (('inmem',im),('sqlite',sm)):
                    cnt+=1
                    with contextlib.redirect_stdout(io.StringIO()):
                        try: rn=mp.nodes_closeto(q,max_dist=r); re_=mp.edges_closeto(q,max_dist=r)
                        except Exception as e: rec(('EXC',fname,bname,type(e).__name__),q,r,repr(e)[:60]); continue
                    tol=1e-9*max(1,r) if not latlon else 0.05
                    tn={k for k,p in nodes.items() if D(q,p)<r-tol}; tn_maybe={k for k,p in nodes.items() if abs(D(q,p)-r)<=tol}
                    gotn={x[1] for x in rn}
                    if not (tn<=gotn<=tn|tn_maybe): rec(('nodes',fname,bname,'missing' if tn-gotn else 'extra'),q,r,sorted(tn),sorted(gotn))
                    te={(a,b) for a,b in es if P2S(q,nodes[a],nodes[b])<r-tol}; te_maybe={(a,b) for a,b in es if abs(P2S(q,nodes[a],nodes[b])-r)<=tol}
                    gote={(x[1],x[3]) for x in re_}
                    if not (te<=gote<=te|te_maybe):
                        miss=te-gote
                        bb=mp.box_around_point(q[:2],r)
                        d2=all(not (bb[0]<=nodes[a][0]<=bb[2] and bb[1]<=nodes[a][1]<=bb[3]) for a,b in miss) and not (gote-te-te_maybe)
                        rec(('edges',fname,bname,'D2-pattern' if (d2 and bname=='inmem') else 'OTHER'),q,r,sorted(te),sorted(gote))
                    ds=[x[0] for x in rn]; 
                    if ds!=sorted(ds): rec(('nodes unsorted',fname,bname),q,r)
                    ds=[x[0] for x in re_]
                    if ds!=sorted(ds): rec(('edges unsorted',fname,bname),q,r)
                    for x in rn:
                        if abs(x[0]-D(q,nodes[x[1]]))>tol: rec(('node dist',fname,bname),q,r,x)
                    for x in re_:
                        if abs(x[0]-P2S(q,nodes[x[1]],nodes[x[3]]))>tol: rec(('edge dist',fname,bname),q,r,x)
        sm.db.close()
shutil.rmtree(d)
print('queries',cnt)
for k,v in sorted(kinds.items(),key=str): print(k,v)
