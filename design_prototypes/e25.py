from common import *
import sys
part=int(sys.argv[1]); nparts=int(sys.argv[2])
pts2=[(0.03,0.01),(0.11,2.07),(2.05,0.13),(1.93,2.21)]
obs2=[(0.21,0.34),(0.17,1.12),(1.08,0.97),(1.21,2.9)]
kinds={}; cnt=0
def rec(k,*a):
    kinds[k]=kinds.get(k,0)+1
    if kinds[k]<3: print(k,*a)
def okmove(g,linked,a,b):
    if a==b: return True
    ta,tb=type(a) is tuple, type(b) is tuple
    if ta and tb:
        if b[0]==a[1] and b[1] in g[a[1]][1] and b[1]!=b[0]: return True
        if linked and b in linked.get(a,()): return True
        return False
    if ta and not tb: return b==a[1]
    if not ta and tb: return b[0]==a and b[1] in g[a][1]
    return b in g[a][1]
def exists(g,s):
    if type(s) is tuple: return s[0] in g and s[1] in g[s[0]][1]
    return s in g
ci=0
for alpha,(P,O) in (('gen',(pts2,obs2)),('grid',(pts,obsalpha[:4]))):
 for n in (2,3,4):
  for g0 in graphs(n,maxedges=5):
    ci+=1
    if ci%nparts!=part: continue
    g={k:(P[k],list(v[1])) for k,v in g0.items()}
    # self-listed neighbours variant
    for selfl in (False,True):
      gg={k:(v[0],list(v[1])+([k] if selfl and k==0 else [])) for k,v in g.items()}
      edges=[(a,b) for a,v in gg.items() for b in v[1] if a!=b]
      linkvars=[None]
      if len(edges)>=2 and n==4: linkvars.append({edges[0]:{edges[-1]}})
      for linked in linkvars:
        for T in (2,3):
          for path in itertools.product(O,repeat=T):
            for kind,oe in (('simple',True),('simple',False),('distance',True)):
              for ne in (False,True):
                for W in (None,1):
                    mp=InMemMap("m",use_latlon=False,graph={k:(v[0],list(v[1])) for k,v in gg.items()},linked_edges=linked)
                    kw=dict(non_emitting_states=ne,obs_noise=1.0,max_lattice_width=W)
                    m=SimpleMatcher(mp,only_edges=oe,**kw) if kind=='simple' else DistanceMatcher(mp,**kw)
                    cnt+=1
                    try: res=m.match(list(path))
                    except Exception as e: rec(('EXC',type(e).__name__,str(e)[:40]),gg,path,kind,oe,ne,W,linked); continue
                    sk=[e.shortkey for e in m.lattice_best]
                    for s in sk:
                        if not exists(gg,s): rec(('nonexistent',kind,oe,ne),gg,path,W,linked,sk)
                    for a,b in zip(sk,sk[1:]):
                        if not okmove(gg,linked,a,b): rec(('badmove',kind,oe,ne,linked is not None),gg,path,W,linked,sk,(a,b))
                    if linked is None and sk:
                        try:
                            nodes=m.path_pred_onlynodes
                            for u,v in zip(nodes,nodes[1:]):
                                if u==v: rec(('repeat',kind,oe,ne),gg,path,W,sk,nodes)
                                elif v not in gg[u][1]: rec(('nonadjacent',kind,oe,ne),gg,path,W,sk,nodes)
                        except Exception as e: rec(('onlynodes EXC',kind,oe,ne,str(e)[:30]),gg,path,W,sk)
print('DONE',cnt)
for k,v in sorted(kinds.items(),key=str): print(k,v)
