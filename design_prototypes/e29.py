import sys
sys.path.insert(0,'/tmp/explore/repo_fix')
from common import *
import leuvenmapmatching; print(leuvenmapmatching.__file__)
pts2=[(0.03,0.01),(0.11,2.07),(2.05,0.13),(1.93,2.21)]
obs2=[(0.21,0.34),(0.17,1.12),(1.08,0.97),(1.21,2.9)]
kinds={}; cnt=0
def rec(k,*a):
    kinds[k]=kinds.get(k,0)+1
    if kinds[k]<3: print(k,*a)
def variants(g):
    keys=list(g)
    for perm in itertools.permutations(keys):
        nbrperms=[list(itertools.permutations(g[k][1])) for k in perm]
        for combo in itertools.product(*nbrperms):
            yield {k:(g[k][0],list(nb)) for k,nb in zip(perm,combo)}
for alpha,(P,O) in (('gen',(pts2,obs2)),('grid',(pts,obsalpha[:4]))):
  for n in (2,3):
    for g0 in graphs(n,maxedges=5):
        g={k:(P[k],v[1]) for k,v in g0.items()}
        for T in (2,3):
          for path in itertools.product(O,repeat=T):
            if T==3 and path[0]!=O[0]: continue
            for kind,oe in (('simple',True),('simple',False),('distance',True)):
              for ne in (False,True):
                for W in (None,1):
                  for cfg in (dict(),dict(max_dist=1.5)):
                    base=None
                    for gv in variants(g):
                        m=mk(gv,kind,non_emitting_states=ne,only_edges=oe,obs_noise=1.0,max_lattice_width=W,**cfg); cnt+=1
                        r=canon(m,m.match(list(path)))
                        if base is None: base=r
                        elif r[:2]!=base[:2]: rec((alpha,'idx/lp',kind,oe,ne,W,tuple(cfg)),g,gv,path,base,r)
                        elif r!=base and alpha=='gen': rec((alpha,'path',kind,oe,ne,W,tuple(cfg)),g,gv,path,base,r)
print(cnt)
for k,v in sorted(kinds.items(),key=str): print(k,v)
