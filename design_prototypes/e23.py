import itertools, logging
from leuvenmapmatching.matcher.base import LatticeColumn, BaseMatching
from leuvenmapmatching.util.segment import Segment
logging.getLogger("be.kuleuven.cs.dtai.mapmatching").setLevel(logging.ERROR)
scores=[-1.0,-2.0,-3.0]
cnt=bad=0; kinds={}
def rec(k,*a):
    kinds[k]=kinds.get(k,0)+1
    if kinds[k]<4: print(k,*a)
for n in range(0,6):
  for sc in itertools.combinations_with_replacement(scores,n):
    for dl in itertools.product((0,1,2),repeat=n):
      for st in itertools.product((False,True),repeat=n):
        if sum(st)>1: continue
        for W in (1,2,3):
          for upto in (0,1):
            for thr in (None,-1.0,-2.0,-3.0):
                col=LatticeColumn(0); es=[]
                for i in range(n):
                    e=BaseMatching(None,Segment(i,(0,0),i+100,(1,1)),Segment("O0",(0,0)),logprob=sc[i],obs=0,obs_ne=0,stop=st[i],delayed=dl[i])
                    col.upsert(e); es.append(e)
                ret=col.prune(0,W,upto,thr); cnt+=1
                live=[e for i,e in enumerate(es) if not st[i]]
                # stopped untouched
                for i,e in enumerate(es):
                    if st[i] and e.delayed!=dl[i]: rec('stopped touched',sc,dl,st,W,upto,thr)
                if len(live)<=W:
                    if any(e.delayed!=dl[i] for i,e in enumerate(es) if not st[i]): rec('changed though fits',sc,dl,st,W,upto,thr)
                    if ret!=thr: rec('ret when fits',sc,dl,st,W,upto,thr,ret)
                    continue
                s=sorted((e.logprob for e in live),reverse=True); cut=s[W-1]
                keepset=[e for e in live if e.logprob>=cut]
                if thr is not None: keepset=[e for e in keepset if e.logprob>=thr]
                now=[e for e in live if e.delayed<=upto]; later=[e for e in live if e.delayed>upto]
                if set(map(id,now))!=set(map(id,keepset)): rec(('active!=topW+ties',thr is None),sc,dl,st,W,upto,thr,[(e.logprob,e.delayed) for e in live])
                if now and later and max(e.logprob for e in later)>min(e.logprob for e in now): rec('postponed beats active',sc,dl,st,W,upto,thr)
                exp_ret = min(e.logprob for e in keepset) if keepset else thr
                if ret!=exp_ret: rec('ret',sc,dl,st,W,upto,thr,ret,exp_ret)
print(cnt,kinds)
