import itertools, math, sys, logging, copy
from leuvenmapmatching.map.inmem import InMemMap
from leuvenmapmatching.matcher.simple import SimpleMatcher
from leuvenmapmatching.matcher.distance import DistanceMatcher
LOG=logging.getLogger("be.kuleuven.cs.dtai.mapmatching")
LOG.setLevel(logging.ERROR)
InMemMap._items_in_bb=lambda self,bb: iter(self.graph.items())
pts=[(0,0),(0,2),(2,0),(2,2),(1,4)]
obsalpha=[(0,0),(0,1),(1,1),(1,3),(3,1),(0.5,2)]
def graphs(n, maxedges=None):
    nodes=list(range(n))
    pairs=[(a,b) for a in nodes for b in nodes if a!=b]
    for mask in range(1,1<<len(pairs)):
        if maxedges and bin(mask).count('1')>maxedges: continue
        g={a:(pts[a],[]) for a in nodes}
        for i,(a,b) in enumerate(pairs):
            if mask>>i&1: g[a][1].append(b)
        yield g
def mk(g,kind,**kw):
    mp=InMemMap("m",use_latlon=False,graph={k:(v[0],list(v[1])) for k,v in g.items()})
    if kind=='simple': return SimpleMatcher(mp,**kw)
    kw.pop('only_edges',None)
    return DistanceMatcher(mp,**kw)
def canon(m,res):
    states,idx=res
    lb=m.lattice_best
    return (idx, None if not lb else round(lb[-1].logprob,9), tuple(states) if states is not None else None)
