import math
def lattice_invariants(m, tol=1e-9):
    """returns list of violation strings for C09-style invariants"""
    v=[]
    lat=m.lattice
    if lat is None: return v
    ids={}
    for i,col in lat.items():
        if col.obs_idx!=i: v.append(f"col {i} obs_idx {col.obs_idx}")
        for k,layer in enumerate(col.o):
            for key,e in layer.items():
                ids[id(e)]=(i,k)
    for i,col in lat.items():
        for k,layer in enumerate(col.o):
            for key,e in layer.items():
                if e.key!=key: v.append(f"key mismatch {key} vs {e.key}")
                if e.obs!=i or e.obs_ne!=k: v.append(f"filed wrong {key} in ({i},{k})")
                if not (e.logprob<=tol) or math.isnan(e.logprob): v.append(f"logprob {e.logprob} at {key}")
                if e.length!=i+1: v.append(f"length {e.length} at {key}")
                if i==0 and k==0:
                    if len(e.prev)!=0: v.append(f"first has prev {key}")
                    continue
                if len(e.prev)==0: v.append(f"no prev {key}"); continue
                for p in e.prev:
                    if id(p) not in ids: v.append(f"dangling prev {p.key} of {key}"); continue
                    pi,pk=ids[id(p)]
                    if k>0:
                        if (pi,pk)!=(i,k-1): v.append(f"prev layer {(pi,pk)} of {key}")
                    else:
                        if pi!=i-1: v.append(f"prev col {(pi,pk)} of {key}")
                    if e.logprob>p.logprob+tol: v.append(f"more probable than prev {key} {e.logprob}>{p.logprob}")
                    live=lambda x: (not x.stop) and x.delayed<=m.expand_now
                    if live(e) and not live(p): v.append(f"live with dead prev {key} (d={e.delayed},s={e.stop}) prev {p.key} (d={p.delayed},s={p.stop}) now={m.expand_now}")
    return v
