import sys
sys.path.insert(0,'/tmp/explore/repo_fix')
from common import *
import importlib, leuvenmapmatching.map.inmem as _im
importlib.reload(_im); InMemMap=_im.InMemMap
import leuvenmapmatching.util.dist_latlon as dll
print(leuvenmapmatching.__file__ if 'leuvenmapmatching' in dir() else _im.__file__)
part=int(sys.argv[1]); nparts=int(sys.argv[2])
def dest(p,b,d):
    la,lo=dll.destination_radians(math.radians(p[0]),math.radians(p[1]),b,d); return (math.degrees(la),math.degrees(lo))
def to_ll(anchor,p):
    y,x=p[0]*30.0,p[1]*30.0; d=math.hypot(x,y)
    return anchor if d==0 else dest(anchor,math.atan2(x,y),d)
ptsd=[(0,0),(0,2),(2,0),(0,0)]
obsd=[(0,0),(0,1),(1,1),(0,2),(0,3)]
kinds={}; cnt=0
def rec(k,*a):
    kinds[k]=kinds.get(k,0)+1
    if kinds[k]<3: print(k,*a)
ci=0
for metric in ('planar','latlon'):
 anchor=(50.86,4.7)
 for n in (2,3,4):
  for g0 in graphs(n,maxedges=3):
    ci+=1
    if ci%nparts!=part: continue
    if metric=='planar': g={k:(ptsd[k],v[1]) for k,v in g0.items()}; O=obsd; sc=1.0
    else: g={k:(to_ll(anchor,ptsd[k]),v[1]) for k,v in g0.items()}; O=[to_ll(anchor,p) for p in obsd]; sc=30.0
    for T in (1,2,3):
      for path in itertools.product(O,repeat=T):
        if T==3 and path[0] not in O[:2]: continue
        for kind,oe in (('simple',True),('simple',False),('distance',True)):
          for ne in (False,True):
            for noise in (0.1,1.0,8.0,50.0):
              for cfg in (dict(),dict(max_dist=1.5*sc,min_prob_norm=0.3)):
                kw=dict(non_emitting_states=ne,only_edges=oe,obs_noise=noise*sc); kw.update(cfg)
                res=[]
                for tr in (False,True):
                    mp=InMemMap("m",use_latlon=(metric=='latlon'),graph={k:(v[0],list(v[1])) for k,v in g.items()})
                    m=SimpleMatcher(mp,**kw) if kind=='simple' else DistanceMatcher(mp,**{k:v for k,v in kw.items() if k!='only_edges'})
                    pp=[tuple(p)+((1000.0+i,) if tr else ()) for i,p in enumerate(path)]; cnt+=1
                    try: r=m.match(pp); res.append(canon(m,r))
                    except Exception as e: res.append(None); rec(('EXC',metric,'triples' if tr else 'pairs',kind,oe,ne,type(e).__name__,str(e)[:50]),g,path,kw)
                if None not in res and res[0]!=res[1]: rec(('pairs!=triples',metric,kind,oe,ne),g,path,kw,res)
print('DONE',cnt)
for k,v in sorted(kinds.items(),key=str): print(k,v)
