import itertools, math
from fractions import Fraction as F
import leuvenmapmatching.util.dist_euclidean as de
def pproj(p,a,b):
    ax,ay=a;bx,by=b;px,py=p
    l2=(ax-bx)**2+(ay-by)**2
    if l2==0: return a,F(0)
    t=F((px-ax)*(bx-ax)+(py-ay)*(by-ay),l2); t=max(F(0),min(F(1),t))
    return (ax+t*(bx-ax),ay+t*(by-ay)),t
def d2(p,q): return (p[0]-q[0])**2+(p[1]-q[1])**2
def orient(a,b,c): return (b[0]-a[0])*(c[1]-a[1])-(b[1]-a[1])*(c[0]-a[0])
def onseg(a,b,c): return min(a[0],b[0])<=c[0]<=max(a[0],b[0]) and min(a[1],b[1])<=c[1]<=max(a[1],b[1])
def intersect(a,b,c,d):
    o1,o2,o3,o4=orient(a,b,c),orient(a,b,d),orient(c,d,a),orient(c,d,b)
    if ((o1>0)!=(o2>0)) and o1!=0 and o2!=0 and ((o3>0)!=(o4>0)) and o3!=0 and o4!=0: return True
    if o1==0 and onseg(a,b,c): return True
    if o2==0 and onseg(a,b,d): return True
    if o3==0 and onseg(c,d,a): return True
    if o4==0 and onseg(c,d,b): return True
    return False
def segseg2(a,b,c,d):
    if intersect(a,b,c,d): return F(0)
    return min(d2(pproj(a,c,d)[0],a),d2(pproj(b,c,d)[0],b),d2(pproj(c,a,b)[0],c),d2(pproj(d,a,b)[0],d))
N=4
P=[(x,y) for x in range(N) for y in range(N)]
cnt=bad=0; kinds={}
for a,b,c,d in itertools.product(P,repeat=4):
    cnt+=1
    try:
        dist,pf,pt,uf,ut=de.distance_segment_to_segment(a,b,c,d)
    except Exception as e:
        k=('EXC',type(e).__name__); kinds[k]=kinds.get(k,0)+1; 
        if kinds[k]<3: print(k,a,b,c,d,e)
        continue
    true=math.sqrt(segseg2(a,b,c,d))
    errs=[]
    if abs(dist-true)>1e-9: errs.append('dist')
    # points on segments at rel pos
    ef=(a[0]+uf*(b[0]-a[0]),a[1]+uf*(b[1]-a[1])); et=(c[0]+ut*(d[0]-c[0]),c[1]+ut*(d[1]-c[1]))
    if not(-1e-12<=uf<=1+1e-12 and -1e-12<=ut<=1+1e-12): errs.append('urange')
    if math.dist(ef,pf)>1e-9 or math.dist(et,pt)>1e-9: errs.append('relpos')
    if abs(math.dist(pf,pt)-dist)>1e-9: errs.append('realise')
    if errs:
        bad+=1
        deg=('zeroF' if a==b else '')+('zeroT' if c==d else '')
        par = ((d[1]-c[1])*(b[0]-a[0])-(d[0]-c[0])*(b[1]-a[1]))==0
        k=(tuple(errs),deg,'par' if par else 'nonpar')
        kinds[k]=kinds.get(k,0)+1
        if kinds[k]<3: print(k,a,b,c,d,'impl',dist,pf,pt,uf,ut,'true',true)
print(cnt,bad)
for k,v in sorted(kinds.items(),key=str): print(k,v)
# point-to-segment
cnt=bad=0
for p,a,b in itertools.product(P,repeat=3):
    cnt+=1
    dist,pi,ti=de.distance_point_to_segment(p,a,b)
    (tx,ty),tt=pproj(p,a,b)
    if abs(dist-math.sqrt(d2((tx,ty),p)))>1e-9 or math.dist(pi,(float(tx),float(ty)))>1e-9 or (a!=b and abs(ti-float(tt))>1e-9): 
        bad+=1; print('P2S',p,a,b,dist,pi,ti)
print('p2s',cnt,bad)
