import itertools, math
import numpy as np
import leuvenmapmatching.util.dist_latlon as dll
import leuvenmapmatching.util.dist_euclidean as de
R=6371000
def vec(p):
    la,lo=math.radians(p[0]),math.radians(p[1]); return np.array([math.cos(la)*math.cos(lo),math.cos(la)*math.sin(lo),math.sin(la)])
def ll(v):
    v=v/np.linalg.norm(v); return (math.degrees(math.asin(v[2])),math.degrees(math.atan2(v[1],v[0])))
def ang(u,v): return math.atan2(np.linalg.norm(np.cross(u,v)),float(np.dot(u,v)))
def gdist(p,q): return R*ang(vec(p),vec(q))
def p2s(p,a,b):
    A,B,P=vec(a),vec(b),vec(p)
    n=np.cross(A,B); nn=np.linalg.norm(n)
    if nn==0: return gdist(p,a),a,0.0
    n=n/nn
    Q=P-np.dot(P,n)*n; Q=Q/np.linalg.norm(Q)
    dab=ang(A,B)
    along=math.atan2(float(np.dot(np.cross(A,Q),n)),float(np.dot(A,Q)))
    t=along/dab
    if t<=0: return gdist(p,a),a,0.0
    if t>=1: return gdist(p,b),b,1.0
    return R*ang(P,Q),ll(Q),t
def dest(p,brg,d):
    la,lo=dll.destination_radians(math.radians(p[0]),math.radians(p[1]),brg,d); return (math.degrees(la),math.degrees(lo))
bad={}
MAXE={}
def rec(k,*a):
    k=(k,a[3] if str(k).startswith("p2s") else None)
    bad[k]=bad.get(k,0)+1
    if bad[k]<4: print(k,*a)
cnt=0
lats=[-59.0,-33.3,0.0,0.7,12.5,45.0,50.86,59.9]; lons=[-170.0,-77.0,0.0,4.7,120.3,179.0]
brgs=[i*math.pi/6 for i in range(12)]
lens=[0.1,1.0,30.0,500.0,5000.0]
for la in lats:
  for lo in lons:
    a=(la,lo)
    for L in lens:
      for bi,brg in enumerate(brgs):
        b=dest(a,brg,L)
        # distance & destination inverse
        d=dll.distance(a,b)
        if abs(d-L)>max(1e-6,1e-9*L): rec('dest/dist inverse',a,brg,L,d)
        if abs(d-gdist(a,b))>1e-6: rec('distance vs vector',a,b,d,gdist(a,b))
        # query points: offsets along/across within few segment lengths
        for fa in (-1.5,-0.3,0.0,0.4,1.0,2.2):
          for fc in (-2.0,-0.2,0.0,0.5,1.3):
            q=dest(dest(a,brg,fa*L) if fa!=0 else a, brg+math.pi/2, fc*L) if fc!=0 else (dest(a,brg,fa*L) if fa!=0 else a)
            cnt+=1
            try:
                d1,pi1,t1=dll.distance_point_to_segment(q,a,b)
                d2,pi2,t2=dll.distance_point_to_segment(q,b,a)
            except Exception as e:
                rec(('EXC p2s',type(e).__name__),q,a,b,repr(e)); continue
            rd,rpi,rt=p2s(q,a,b)
            tol=0.01+1e-4*L
            ME=MAXE.setdefault(L,[0,0,0,0,0,0]); ME[0]=max(ME[0],abs(d1-rd)); ME[1]=max(ME[1],gdist(pi1,rpi)); ME[2]=max(ME[2],abs(t1-rt)*L); ME[3]=max(ME[3],abs(d1-d2)); ME[4]=max(ME[4],gdist(pi1,pi2)); ME[5]=max(ME[5],abs(t1-(1-t2))*L)
            if abs(d1-rd)>tol: rec('p2s dist',q,a,b,L,d1,rd)
            if gdist(pi1,rpi)>tol: rec('p2s proj',q,a,b,L,pi1,rpi)
            if abs(t1-rt)*L>tol: rec('p2s t',q,a,b,L,t1,rt)
            if abs(d1-d2)>tol or gdist(pi1,pi2)>tol or abs(t1-(1-t2))*L>tol: rec('p2s swap',q,a,b,L,(d1,pi1,t1),(d2,pi2,t2))
        # box
        for r in (L,):
            bb=dll.box_around_point(a,r)
            for k in range(16):
                p=dest(a,k*math.pi/8,r*0.999)
                if not (bb[0]<=p[0]<=bb[2] and bb[1]<=p[1]<=bb[3]): rec('box',a,r,k); break
print(cnt); print(bad)

for L,v in MAXE.items(): print(L,['%.3g'%x for x in v])
