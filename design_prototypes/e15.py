from common import *
import leuvenmapmatching.map.inmem as _im, importlib
# C16: scaling/translation/axis swap/relabel on grid+generic alphabets
pts2=[(0.03,0.01),(0.11,2.07),(2.05,0.13),(1.93,2.21)]
obs2=[(0.21,0.34),(0.17,1.12),(1.08,0.97),(1.21,2.9)]
kinds={}
def rec(k,*a):
    kinds[k]=kinds.get(k,0)+1
    if kinds[k]<3: print(k,*a)
def run(g,path,kind,oe,ne,W,scale=1.0,cfg={}):
    kw=dict(non_emitting_states=ne,only_edges=oe,obs_noise=1.0*scale,max_lattice_width=W)
    for k,v in cfg.items(): kw[k]=v*scale if k!='min_prob_norm' else v
    m=mk(g,kind,**kw)
    try:
        res=m.match(list(path)); lb=m.lattice_best
        return (res[1], None if not lb else lb[-1].logprob, tuple(res[0]))
    except Exception as e: return ('EXC',repr(e)[:60],None)
def tf(g,path,f,relabel=lambda x:x):
    g2={relabel(k):(f(v[0]),[relabel(x) for x in v[1]]) for k,v in g.items()}
    return g2,[f(p) for p in path]
cnt=0
for alpha,(P,O) in (('grid',(pts,obsalpha[:4])),('gen',(pts2,obs2))):
 for n in (2,3):
  for g0 in graphs(n):
    g={k:(P[k],v[1]) for k,v in g0.items()}
    for T in (2,3):
      for path in itertools.product(O,repeat=T):
        for kind,oe in (('simple',True),('simple',False),('distance',True)):
          for ne in (False,True):
           for W in (None,2):
            for cfg in (dict(),dict(max_dist=1.5,min_prob_norm=0.3)):
                base=run(g,path,kind,oe,ne,W,1.0,cfg); cnt+=1
                for name,f,sc in [('swap',lambda p:(p[1],p[0]),1.0)]+[(f'scale2^{k}',(lambda k:(lambda p:(p[0]*2.0**k,p[1]*2.0**k)))(k),2.0**k) for k in (-20,-13,-8,3,20,40)]+[(f'transl{o}',(lambda o:(lambda p:(p[0]+o,p[1]-o)))(o),1.0) for o in (1024.0,2.0**20,2.0**30)]:
                    if name.startswith('transl') and (W is not None): continue
                    g2,p2=tf(g,path,f)
                    r=run(g2,p2,kind,oe,ne,W,sc,cfg)
                    same = r[0]==base[0] and (r[1]==base[1] or (r[1] is not None and base[1] is not None and abs(r[1]-base[1])<=1e-9*max(1,abs(base[1]))))
                    if not same: rec((alpha,name,kind,oe,ne,W,tuple(cfg)),g,path,base,r)
print(cnt)
for k,v in sorted(kinds.items(),key=str): print(k,v)
