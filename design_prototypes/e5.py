from common import *
import hashlib, json
# C10: dump canonical results for a fixed input set; run under different PYTHONHASHSEED and diff
out=[]
cfgs=[dict(),dict(max_dist=1.5),dict(min_prob_norm=0.3)]
for n in (2,3):
  for g in graphs(n, maxedges=4):
    for T in (2,3):
      for path in itertools.product(obsalpha[:4],repeat=T):
        for kind in ('simple','distance'):
          for oe in ((True,False) if kind=='simple' else (True,)):
           for ne in (False,True):
            for cfg in cfgs:
                m=mk(g,kind,non_emitting_states=ne,only_edges=oe,obs_noise=1.0,**cfg)
                try: res=m.match(list(path)); c=canon(m,res); keys=[x.key for x in m.lattice_best]
                except Exception as e: c=('EXC',repr(e)); keys=None
                out.append((repr((g,path,kind,oe,ne,cfg)),repr(c),repr(keys)))
import pickle,sys
pickle.dump(out,open(sys.argv[1],'wb'))
