"""Scratch reference model: brute-force over all walks, emitting-only."""
import math, itertools
INF=float('inf')
def proj(p,a,b):
    ax,ay=a; bx,by=b; px,py=p[0],p[1]
    l2=(ax-bx)**2+(ay-by)**2
    if l2==0: return a,0.0
    t=((px-ax)*(bx-ax)+(py-ay)*(by-ay))/l2
    t=max(0.0,min(1.0,t))
    return (ax+t*(bx-ax), ay+t*(by-ay)), t
def dist(p,q): return math.hypot(p[0]-q[0],p[1]-q[1])

class Ref:
    def __init__(self, graph, kind, only_edges=True, obs_noise=1.0, max_dist=None, max_dist_init=None, min_prob_norm=None, dist_noise=None):
        self.g=graph; self.kind=kind; self.only_edges=only_edges
        self.max_dist=max_dist if max_dist else INF
        self.max_dist_init=max_dist_init if max_dist_init else self.max_dist
        self.minlp=math.log(min_prob_norm) if min_prob_norm else -INF
        self.obs_noise=obs_noise
        self.dist_noise=dist_noise if dist_noise is not None else obs_noise
    def states(self):
        es=[(a,b) for a,(loc,nb) in self.g.items() for b in nb if a!=b]
        if self.only_edges: return es
        return es+[(a,) for a in self.g]
    def loc(self,a): return self.g[a][0]
    def place(self,s,o):
        if len(s)==1: return self.loc(s[0]),0,dist(self.loc(s[0]),o)
        pi,ti=proj(o,self.loc(s[0]),self.loc(s[1])); return pi,ti,dist(pi,o)
    def succ(self,s):
        out=[]
        if len(s)==2:
            out.append(s)
            if self.only_edges:
                for c in self.g[s[1]][1]:
                    if c!=s[1] and (s[1],c) not in out: out.append((s[1],c))
            else:
                out.append((s[1],))
        else:
            out.append(s)
            for c in self.g[s[0]][1]:
                if c!=s[0]:
                    out.append((c,)); out.append((s[0],c))
        return out
    def lp_obs(self,d):
        if self.kind=='simple':
            return -d*d/(2*self.obs_noise**2)
        return -d*d/(2*self.obs_noise**2)
    def lp_trans(self,ps,ppi,pti,po,s,pi,ti,o):
        if self.kind=='simple':
            return 0.0 if ps==s else math.log(0.9)
        d_z=dist(po,o)
        same = (ps==s) or (len(ps)==2 and len(s)==2 and ps==(s[1],s[0]))
        if same or ps[-1]!=s[0] or len(ps)==1 or len(s)==1:
            d_x=dist(ppi,pi)
        else:
            d_x=dist(ppi,self.loc(ps[1]))+dist(self.loc(ps[1]),pi)
        lp=-(abs(d_z-d_x))**2/(2*self.dist_noise**2)
        if ps==s: pass
        elif len(ps)==2 and len(s)==2 and ps==(s[1],s[0]): pass
        else:
            if ps[-1]!=s[0]: lp+=math.log(0.5)
        return lp
    def best(self,path):
        """returns (last_idx, best logprob, set of best walks) ; last_idx=-1 if nothing"""
        S=self.states()
        # layer 0
        cur={}
        for s in S:
            if self.only_edges and len(s)==1: continue
            if not self.only_edges and len(s)==2: continue
            pi,ti,d=self.place(s,path[0])
            if not d<self.max_dist_init: continue
            lp=self.lp_obs(d)
            if lp<self.minlp or d>self.max_dist: continue
            cur[(s,)]=(lp,pi,ti)
        if not cur: return -1,None,[]
        last=0
        for k in range(1,len(path)):
            nxt={}
            for w,(lp,ppi,pti) in cur.items():
                ps=w[-1]
                for s in self.succ(ps):
                    pi,ti,d=self.place(s,path[k])
                    if not self.only_edges and len(s)==2 and (abs(ti)<=1e-8 or abs(ti-1)<=1e-8): continue
                    nlp=lp+self.lp_trans(ps,ppi,pti,path[k-1],s,pi,ti,path[k])+self.lp_obs(d)
                    if nlp/(k+1)<self.minlp or d>self.max_dist: continue
                    nxt[w+(s,)]=(nlp,pi,ti)
            if not nxt: break
            cur=nxt; last=k
        b=max(v[0] for v in cur.values())
        return last,b,[w for w,v in cur.items() if abs(v[0]-b)<=1e-9*max(1,abs(b))]
