from common import *
from inv import lattice_invariants
import sys
part=int(sys.argv[1]); nparts=int(sys.argv[2])
pts2=[(0.03,0.01),(0.11,2.07),(2.05,0.13),(1.93,2.21)]
obs2=[(0.21,0.34),(0.17,1.12),(1.08,0.97),(1.21,2.9),(2.6,1.4)]
def graphs2(n,maxedges=None):
    for g in graphs(n,maxedges):
        yield {k:(pts2[k],v[1]) for k,v in g.items()}
# C07: pruned vs unpruned; widening monotone; C09 invariants after each op
cnt=bad=0; kinds={}
cfgs=[dict(),dict(max_dist=1.5),dict(min_prob_norm=0.3)]
def rec(tag,*a):
    global bad
    bad+=1
    if tag not in kinds:
        kinds[tag]=0
        print(tag,*a)
    kinds[tag]+=1
ci=0
for n in (3,4):
  for g in graphs2(n,maxedges=5 if n==3 else 4):
    ci+=1
    if ci%nparts!=part: continue
    if n==4 and sum(len(v[1]) for v in g.values())<3: continue
    for T in (2,3):
      for path in itertools.product(obs2[:4],repeat=T):
        for kind in ('simple','distance'):
          for oe in ((True,False) if kind=='simple' else (True,)):
           for ne in (False,True):
            for cfg in cfgs:
                kw=dict(non_emitting_states=ne,only_edges=oe,obs_noise=1.0,**cfg)
                m=mk(g,kind,**kw)
                try: ref=canon(m,m.match(list(path)))
                except Exception as e: rec(('EXC-unpruned',type(e).__name__),g,path,kind,kw,repr(e)); continue
                ncand=max(len(c.values(0)) for c in m.lattice.values())
                vs=lattice_invariants(m)
                if vs: rec(('INV-oneshot',vs[0].split()[0]),g,path,kind,kw,vs[:3])
                prevres=None
                for W in (1,2,3):
                    cnt+=1
                    mw=mk(g,kind,max_lattice_width=W,**kw)
                    try: got=canon(mw,mw.match(list(path)))
                    except Exception as e: rec(('EXC-pruned',type(e).__name__,str(e)[:30]),g,path,kind,kw,W,repr(e)); continue
                    vs=lattice_invariants(mw)
                    if vs: rec(('INV-pruned',vs[0].split()[0],ne,oe),g,path,kind,kw,W,vs[:3])
                    if got[0]>ref[0]: rec(('pruned longer',ne,oe,kind),g,path,kind,kw,W,ref,got)
                    if got[0]==ref[0]==T-1 and got[1] is not None and got[1]>ref[1]+1e-9: rec(('pruned more probable',ne,oe,kind),g,path,kind,kw,W,ref,got)
                    # widening sequence on same matcher from W=1
                    if W==1:
                        cur=got; mm=mw
                        for W2 in (2,3,8):
                            try: nxt=canon(mm,mm.increase_max_lattice_width(W2))
                            except Exception as e: rec(('EXC-widen',type(e).__name__,str(e)[:30],ne,oe),g,path,kind,kw,W2,repr(e)); break
                            vs=lattice_invariants(mm)
                            if vs: rec(('INV-widen',vs[0].split()[0],ne,oe),g,path,kind,kw,W2,vs[:3])
                            if nxt[0]<cur[0]: rec(('widen shortens',ne,oe,kind),g,path,kind,kw,W2,cur,nxt)
                            elif nxt[0]==cur[0]==T-1 and nxt[1]<cur[1]-1e-9: rec(('widen lowers',ne,oe,kind),g,path,kind,kw,W2,cur,nxt)
                            cur=nxt
                        if cur[:2]!=ref[:2]: rec(('widen-to-8 != unpruned',ne,oe,kind),g,path,kind,kw,ref,cur)
                # W >= ncand coincides
                mw=mk(g,kind,max_lattice_width=max(ncand,1)+20,**kw)
                got=canon(mw,mw.match(list(path)))
                if got!=ref: rec(('bigW != unpruned',ne,oe,kind),g,path,kind,kw,ref,got)
print("DONE",part,cnt,bad)
for k,v in sorted(kinds.items(),key=str): print(k,v)
