from common import *
from replay import check_path, check_struct
import sys
part=int(sys.argv[1]); nparts=int(sys.argv[2])
pts2=[(0.03,0.01),(0.11,2.07),(2.05,0.13),(1.93,2.21),(0.9,4.1)]
obs2=[(0.21,0.34),(0.17,1.12),(1.08,0.97),(1.21,2.9),(0.7,3.9)]
kinds={}; cnt=0
def rec(k,*a):
    kinds[k]=kinds.get(k,0)+1
    if kinds[k]<3: print(k,*a)
ci=0
for alpha,(P,O) in (('gen',(pts2,obs2)),('grid',(pts,obsalpha))):
  for n in (3,4):
    for g0 in graphs(n,maxedges=5):
      ci+=1
      if ci%nparts!=part: continue
      g={k:(P[k],v[1]) for k,v in g0.items()}
      for path in itertools.product(O[:4],repeat=3):
        for kind,oe in (('simple',True),('simple',False),('distance',True)):
          for ne in (False,True):
            for cfg in (dict(),dict(max_dist=1.5,min_prob_norm=0.2)):
              for hist in ((('M',3),('W',2),('W',3)),(('M',1),('X',2),('W',2),('X',3)),(('M',2),('W',3),('X',3),('W',5))):
                kw=dict(non_emitting_states=ne,only_edges=oe,obs_noise=1.0,max_lattice_width=1,**cfg)
                m=mk(g,kind,**kw)
                for op in hist:
                    cnt+=1
                    try:
                        if op[0]=='M': res=m.match(list(path[:op[1]]))
                        elif op[0]=='X': res=m.match(list(path[:op[1]]),expand=True)
                        else: res=m.increase_max_lattice_width(op[1])
                    except Exception as e: rec(('EXC',op[0],type(e).__name__,str(e)[:40]),g,path,kind,kw,hist); break
                    cur=m.path
                    vs=check_struct(m,cur,res,False)
                    for x in vs[:1]: rec(('STRUCT',alpha,x.split()[0],kind,oe,ne,op[0]),g,path,kw,hist,op,res,vs)
                    vs=check_path(m,cur,kind,g)
                    for x in vs[:1]: rec(('PATH',alpha,' '.join(x.split()[1:3]),kind,oe,ne,op[0]),g,path,kw,hist,op,vs[:2])
print('DONE',cnt)
for k,v in sorted(kinds.items(),key=str): print(k,v)
