import tempfile, os, shutil, io, contextlib, itertools, logging
from leuvenmapmatching.map.sqlite import SqliteMap
from leuvenmapmatching.map.inmem import InMemMap
logging.getLogger("be.kuleuven.cs.dtai.mapmatching").setLevel(logging.ERROR)
d=tempfile.mkdtemp(dir='/dev/shm')
nodes=[(1,(0.0,0.5)),(2,(0.25,2.0)),(3,(2.0,0.125))]
edges=[(1,2),(2,1),(2,3)]
def snap(m):
    with contextlib.redirect_stdout(io.StringIO()):
        return dict(use_latlon=m.use_latlon, distmod=m.distance.__module__, size=m.size(), nodes=sorted(m.all_nodes()), edges=sorted(m.all_edges()),
            nclose=m.nodes_closeto((0.1,0.6),max_dist=5), eclose=m.edges_closeto((0.1,0.6),max_dist=5),
            nbr=[sorted(m.nodes_nbrto(k)) for k in (1,2,3)], crs=(m.crs_lonlat,m.crs_xy))
res={}
i=0
for latlon in (False,True):
  for build in ('bulk','single','single_nocommit','single_noindex_reindex','bulk_noindex_reindex','single_nocommit_nofinalcommit'):
    i+=1
    sm=SqliteMap(f"s{i}",use_latlon=latlon,dir=d)
    if build=='bulk': sm.add_nodes(nodes); sm.add_edges(edges)
    elif build=='single':
        for k,p in nodes: sm.add_node(k,p)
        for a,b in edges: sm.add_edge(a,b)
    elif build.startswith('single_nocommit'):
        for k,p in nodes: sm.add_node(k,p,no_commit=True)
        for a,b in edges: sm.add_edge(a,b,no_commit=True)
        if build=='single_nocommit': sm.db.commit()
    elif build=='single_noindex_reindex':
        for k,p in nodes: sm.add_node(k,p,no_index=True)
        for a,b in edges: sm.add_edge(a,b,no_index=True)
        sm.reindex_nodes(); sm.reindex_edges()
    elif build=='bulk_noindex_reindex':
        sm.add_nodes(nodes); sm.add_edges(edges,no_index=True); sm.reindex_edges()
    s0=snap(sm); sm.db.close()
    diffs=[]
    for cyc in range(3):
        try:
            r=SqliteMap.from_file(os.path.join(d,f"s{i}.sqlite")); s1=snap(r); r.db.close()
        except Exception as e:
            diffs.append((cyc,'EXC',repr(e)[:80])); break
        dk=[k for k in s0 if s0[k]!=s1[k]]
        diffs.append((cyc,dk))
    print(latlon,build,diffs)
# inmem pickle
for latlon in (False,True):
    im=InMemMap("pm",use_latlon=latlon,dir=d,graph={k:(p,[b for a,b in edges if a==k]) for k,p in nodes})
    s0=snap(im); im.dump()
    r=InMemMap.from_pickle(os.path.join(d,"pm.pkl")); s1=snap(r)
    print('inmem',latlon,[k for k in s0 if s0[k]!=s1[k]])
shutil.rmtree(d)
