import itertools, math, sys, logging
from leuvenmapmatching.map.inmem import InMemMap
from leuvenmapmatching.matcher.simple import SimpleMatcher
from leuvenmapmatching.matcher.distance import DistanceMatcher
from ref import Ref
logging.getLogger("be.kuleuven.cs.dtai.mapmatching").setLevel(logging.ERROR)
pts=[(0,0),(0,2),(2,0),(2,2)]
obsalpha=[(0,0),(0,1),(1,1),(1,3),(3,1),(0.5,2)]
def graphs(n):
    nodes=list(range(n))
    pairs=[(a,b) for a in nodes for b in nodes if a!=b]
    for mask in range(1,1<<len(pairs)):
        g={a:(pts[a],[]) for a in nodes}
        for i,(a,b) in enumerate(pairs):
            if mask>>i&1: g[a][1].append(b)
        yield g
InMemMap._items_in_bb=lambda self,bb: iter(self.graph.items())
cnt=0; bad=0
cfgs=[dict(),dict(max_dist=1.5),dict(min_prob_norm=0.3),dict(max_dist=2.5,max_dist_init=1.1)]
for n in (2,3):
  for g in graphs(n):
    for T in (1,2,3):
      for path in itertools.product(obsalpha[:4],repeat=T):
        for kind in ('simple','distance'):
          for oe in ((True,False) if kind=='simple' else (True,)):
            for cfg in cfgs:
                mp=InMemMap("m",use_latlon=False,graph={k:(v[0],list(v[1])) for k,v in g.items()})
                if kind=='simple':
                    m=SimpleMatcher(mp,non_emitting_states=False,only_edges=oe,avoid_goingback=False,obs_noise=1.0,**cfg)
                else:
                    m=DistanceMatcher(mp,non_emitting_states=False,avoid_goingback=False,obs_noise=1.0,**cfg)
                try:
                    states,idx=m.match(list(path))
                except Exception as e:
                    print("EXC",g,path,kind,oe,cfg,repr(e)); bad+=1; continue
                r=Ref(g,kind,only_edges=oe,obs_noise=1.0,**cfg)
                last,b,walks=r.best(path)
                cnt+=1
                if last==-1:
                    ok = (states==[] and idx==0)
                else:
                    lb=m.lattice_best
                    ok = idx==last and lb and abs(lb[-1].logprob-b)<=1e-9*max(1,abs(b))
                if not ok:
                    bad+=1
                    if bad<15: print("MISMATCH",g,path,kind,oe,cfg,"impl",states,idx,(m.lattice_best[-1].logprob if m.lattice_best else None),"ref",last,b,walks[:2])
print(cnt,bad)
