from common import *
import io
# C19: DEBUG vs ERROR
cnt=bad=0
cfgs=[dict(),dict(max_dist=1.5),dict(min_prob_norm=0.3)]
h=logging.StreamHandler(io.StringIO()); LOG.addHandler(h)
kinds={}
for n in (2,3):
  for g in graphs(n, maxedges=4):
    for T in (1,2,3):
      for path in itertools.product(obsalpha[:4],repeat=T):
        for kind in ('simple','distance'):
          for oe in ((True,False) if kind=='simple' else (True,)):
           for ne in (False,True):
            for cfg in cfgs:
                r=[]
                for lvl in (logging.ERROR,logging.DEBUG):
                    LOG.setLevel(lvl); h.stream=io.StringIO()
                    m=mk(g,kind,non_emitting_states=ne,only_edges=oe,obs_noise=1.0,**cfg)
                    try: res=m.match(list(path)); r.append(canon(m,res))
                    except Exception as e: r.append(('EXC',type(e).__name__+str(e)[:40]))
                cnt+=1
                if r[0]!=r[1]:
                    bad+=1
                    k=(r[0][0] if r[0][0]=='EXC' else 'ok', r[1][0]=='EXC', r[1][2] is None if r[1][0]!='EXC' else None, ne, oe, tuple(cfg))
                    if k not in kinds:
                        kinds[k]=0; print("C19",g,path,kind,oe,ne,cfg,r)
                    kinds[k]+=1
print(cnt,bad); print(kinds)
