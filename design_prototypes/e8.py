from common import *
# C07 first sentence on one-shot pruned runs via final lattice
pts2=[(0.03,0.01),(0.11,2.07),(2.05,0.13),(1.93,2.21)]
obs2=[(0.21,0.34),(0.17,1.12),(1.08,0.97),(1.21,2.9),(2.6,1.4)]
cnt=bad=0
import random
for n in (3,4):
  for g0 in graphs(n,maxedges=5 if n==3 else 4):
    g={k:(pts2[k],v[1]) for k,v in g0.items()}
    if n==4 and random.random()>0.1: continue
    for T in (2,3):
      for path in itertools.product(obs2[:4],repeat=T):
        for kind,oe in (('simple',True),('simple',False),('distance',True)):
           for ne in (False,True):
             for W in (1,2):
                m=mk(g,kind,non_emitting_states=ne,only_edges=oe,obs_noise=1.0,max_lattice_width=W)
                res=m.match(list(path)); cnt+=1
                for i in range(res[1]+1):
                    col=m.lattice[i]
                    for k,layer in enumerate(col.o):
                        live=[e for e in layer.values() if not e.stop]
                        exp=[e for e in live if e.delayed<=m.expand_now]; post=[e for e in live if e.delayed>m.expand_now]
                        if not live: continue
                        ok=True
                        if exp and post and max(p.logprob for p in post)>min(e.logprob for e in exp): ok=False
                        if len(exp)>W:
                            srt=sorted(e.logprob for e in exp)
                            # allowed only by ties with W-th best
                            s=sorted((e.logprob for e in live),reverse=True)
                            thr=s[W-1]
                            if any(e.logprob<thr for e in exp): ok=False
                        if not ok:
                            bad+=1
                            if bad<10: print(g,path,kind,oe,ne,W,i,k,[(e.key,e.logprob,e.delayed) for e in live])
print(cnt,bad)
