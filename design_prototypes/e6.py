from common import *
# C08: incremental vs one-shot. general-position points to avoid ties
import random
pts2=[(0.03,0.01),(0.11,2.07),(2.05,0.13),(1.93,2.21)]
obs2=[(0.21,0.34),(0.17,1.12),(1.08,0.97),(1.21,2.9),(2.6,1.4)]
def graphs2(n,maxedges=None):
    for g in graphs(n,maxedges):
        yield {k:(pts2[k],v[1]) for k,v in g.items()}
cnt=bad=0; kinds={}
cfgs=[dict(),dict(max_dist=1.5),dict(min_prob_norm=0.3)]
for n in (2,3):
  for g in graphs2(n,maxedges=4):
    for T in (2,3,4):
      for path in itertools.product(obs2[:4],repeat=T):
        if T==4 and path[0]!=obs2[0]: continue
        for kind in ('simple','distance'):
          for oe in ((True,False) if kind=='simple' else (True,)):
           for ne in (False,True):
            for cfg in cfgs:
                m=mk(g,kind,non_emitting_states=ne,only_edges=oe,obs_noise=1.0,**cfg)
                try: ref=canon(m,m.match(list(path)))
                except Exception as e: ref=('EXC',repr(e))
                for k in range(1,T):
                    m2=mk(g,kind,non_emitting_states=ne,only_edges=oe,obs_noise=1.0,**cfg)
                    try:
                        m2.match(list(path[:k])); got=canon(m2,m2.match(list(path),expand=True))
                    except Exception as e: got=('EXC',type(e).__name__+':'+str(e)[:60])
                    cnt+=1
                    if got!=ref:
                        bad+=1
                        kk=(got[0]=='EXC' and got[1][:30], ne, oe, kind, tuple(cfg), k)
                        if kk not in kinds:
                            kinds[kk]=0
                            if len(kinds)<25: print("C08",g,path,kind,oe,ne,cfg,"split",k,"one-shot",ref,"inc",got)
                        kinds[kk]+=1
print(cnt,bad); 
for k,v in sorted(kinds.items(),key=str): print(k,v)
