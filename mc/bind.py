"""Bind the harness to the code under test: the working tree of /repo, never the
stale non-editable copy in /venv's site-packages."""
import os
import sys
import logging
import warnings

REPO = os.path.realpath(os.environ.get("VERIF_REPO", "/repo"))
GUARD = "LEUVENMAPMATCHING_VERIF"
os.environ.setdefault(GUARD, "1")
sys.dont_write_bytecode = True
if sys.path[0] != REPO:
    sys.path.insert(0, REPO)

try:
    import leuvenmapmatching  # noqa: E402
except Exception as exc:  # pragma: no cover
    print(f"BROKEN: cannot import leuvenmapmatching from {REPO}: {exc!r}")
    sys.exit(3)
_f = os.path.realpath(leuvenmapmatching.__file__)
if not _f.startswith(REPO + os.sep):
    print(f"BROKEN: leuvenmapmatching imported from {_f}, not from {REPO}")
    sys.exit(3)

LOGGER_NAME = "be.kuleuven.cs.dtai.mapmatching"
LOG = logging.getLogger(LOGGER_NAME)
LOG.setLevel(logging.ERROR)
LOG.propagate = False
if not LOG.handlers:
    LOG.addHandler(logging.NullHandler())
warnings.filterwarnings("ignore")

import numpy as _np  # noqa: E402
_np.seterr(all="ignore")

# SqliteMap.edges_closeto prints to stdout; shadow the builtin inside that module only.
try:
    import leuvenmapmatching.map.sqlite as _sq  # noqa: E402
    _sq.print = lambda *a, **k: None
except Exception:  # pragma: no cover
    _sq = None


def scratch_dir(tag="lmm"):
    import tempfile
    base = "/dev/shm" if os.path.isdir("/dev/shm") and os.access("/dev/shm", os.W_OK) else None
    return tempfile.mkdtemp(prefix=f"verif-{tag}-", dir=base)

# BaseMatcher.best_last_matches prints a progress line; shadow print inside that module as well.
try:
    import leuvenmapmatching.matcher.base as _mb  # noqa: E402
    _mb.print = lambda *a, **k: None
except Exception:  # pragma: no cover
    _mb = None
