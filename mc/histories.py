"""Operation histories on a live matcher (form B): alphabet, enabledness, execution."""
from mc import mspace as ms


def enabled_ops(state, T, widths=(1, 2, 3), allow_continue=False, allow_fresh=True):
    """state: dict(len=current trace length or None, width=current width or None, fresh=bool)."""
    ops = []
    cur = state["len"]
    if cur is None:
        return [["M", k] for k in range(1, T + 1)]
    if allow_fresh == "shorter":
        for k in range(1, cur):
            ops.append(["M", k])
    elif allow_fresh:
        for k in range(1, T + 1):
            ops.append(["M", k])
    for k in range(cur, T + 1):
        ops.append(["X", k])
    if state["width"] is not None:
        for w in widths:
            if w > state["width"]:
                ops.append(["W", w])
    if allow_continue:
        ops.append(["C", None])
        ops.append(["C", 1.0])
    return ops


def step_state(state, op):
    s = dict(state)
    if op[0] in ("M", "X"):
        s["len"] = op[1]
    elif op[0] == "W":
        s["width"] = op[1]
    return s


def apply_op(m, trace, op, unique=False):
    """-> result of the public call (or the exception it raised)"""
    if len(op) > 2 and op[2] == "u":
        unique = True          # an operation may ask for the collapsed state list on its own: ["W", 2, "u"]
    try:
        if op[0] == "M":
            return m.match(list(trace[:op[1]]), unique=unique)
        if op[0] == "X":
            return m.match(list(trace[:op[1]]), unique=unique, expand=True)
        if op[0] == "W":
            return m.increase_max_lattice_width(op[1], unique=unique)
        if op[0] == "N":
            # the same matcher object is reused for ANOTHER trace (the reversed one): a plain match() must start afresh
            return m.match(list(trace[::-1]), unique=unique)
        if op[0] == "C":
            if op[1] is None:
                return ("C", m.continue_with_distance())
            return ("C", m.continue_with_distance(max_dist=op[1]))
    except Exception as exc:  # noqa
        return exc
    raise ValueError(op)


def all_histories(T, depth, width0, widths=(2, 3), allow_continue=False, allow_fresh=False, first_lengths=None):
    """All operation sequences of length 1..depth that start with M(k)."""
    out = []

    def rec(hist, state):
        out.append(list(hist))
        if len(hist) >= depth:
            return
        for op in enabled_ops(state, T, widths=widths, allow_continue=allow_continue, allow_fresh=allow_fresh):
            rec(hist + [op], step_state(state, op))
    for k in (first_lengths or range(1, T + 1)):
        rec([["M", k]], {"len": k, "width": width0})
    return out


def run_history(mp, cfg, trace, hist, after=None, unique=False):
    """Execute hist on one fresh matcher; after(m, op, result, i) is called after every operation."""
    m = ms.make_matcher(mp, cfg)
    results = []
    for i, op in enumerate(hist):
        r = apply_op(m, trace, op, unique=unique)
        results.append(r)
        if after is not None:
            after(m, op, r, i)
    return m, results
