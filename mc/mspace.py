"""Matcher construction, canonical observations and the shared enumeration slices of the matcher-level checks."""
import itertools
import logging

from mc import bind
from mc import alphabet as al
from mc import maps
from mc.refmodel import norm_cfg
from leuvenmapmatching.matcher.simple import SimpleMatcher
from leuvenmapmatching.matcher.distance import DistanceMatcher

CUTS = {
    "none": {},
    "md1.5": {"max_dist": 1.5},
    "mpn0.3": {"min_prob_norm": 0.3},
    "md2.5i1.1": {"max_dist": 2.5, "max_dist_init": 1.1},
    "md1exact": {"max_dist": 1.0},          # attained exactly on GRID inputs: the boundary value must be admitted
    "mpn0.6": {"min_prob_norm": 0.6},
}
FAMS = ["S", "SN", "D"]


def make_matcher(mp, cfg):
    c = norm_cfg(cfg)
    kw = dict(obs_noise=c["obs_noise"], non_emitting_states=bool(c["ne"]), avoid_goingback=bool(c["avoid"]),
              max_lattice_width=c["width"], non_emitting_length_factor=c["ne_factor"])
    for k in ("max_dist", "max_dist_init", "min_prob_norm", "obs_noise_ne"):
        if c[k] is not None:
            kw[k] = c[k]
    if c["fam"] == "D":
        for k in ("dist_noise", "dist_noise_ne"):
            if c[k] is not None:
                kw[k] = c[k]
        m = DistanceMatcher(mp, **kw)
    else:
        m = SimpleMatcher(mp, only_edges=(c["fam"] == "S"), **kw)
    if c["maxnb"] is not None:
        # public attribute (default 100): the maximal depth of a non-emitting run
        m.non_emitting_states_maxnb = c["maxnb"]
    return m


def kind_of(cfg):
    return "distance" if cfg.get("fam", "S") == "D" else "simple"


def path_keys(m):
    return tuple(e.key for e in (m.lattice_best or ()))


def canon(m, res, nd=9):
    """Canonical result: (index, best log-probability, states, keys and per-state log-probabilities of the best path)."""
    if not (isinstance(res, tuple) and len(res) == 2):
        return ("BADRESULT", repr(res))
    states, idx = res
    lb = m.lattice_best or []
    return (idx, None if not lb else round(lb[-1].logprob, nd), None if states is None else tuple(states),
            tuple((e.key, round(e.logprob, nd)) for e in lb))


def canon_weak(c):
    """index and probability only (tie-equivalence needs a replay on top of this)."""
    return c[:2]


def run_match(graph, cfg, trace, backend="inmem", latlon=False, linked=None, unique=False):
    """-> (matcher, result or exception)"""
    mp = maps.inmem(graph, use_latlon=latlon, linked_edges=linked) if backend == "inmem" else maps.sqlite(graph, use_latlon=latlon)
    m = make_matcher(mp, cfg)
    try:
        res = m.match(list(trace), unique=unique)
    except Exception as exc:  # noqa
        res = exc
    return m, res


def _r(x, nd):
    try:
        return None if x is None else round(float(x), nd)
    except (TypeError, ValueError):
        return repr(x)


def lattice_snapshot(m, nd=9):
    """Canonical snapshot of the whole lattice (state of form-B searches)."""
    if m.lattice is None:
        return None
    cols = []
    for i in sorted(m.lattice):
        col = m.lattice[i]
        layers = []
        for li, layer in enumerate(col.o):
            ents = []
            for key, e in layer.items():
                # (besides what the invariants read, every field the transition function reads: two states are merged only
                #  if their futures agree - scores of successors depend on the parts, the accumulated distances and the
                #  projection of the predecessor)
                ents.append((key, e.key, round(e.logprob, nd), e.delayed, e.stop, e.length,
                             tuple(sorted((p.key for p in e.prev), key=repr)),
                             _r(e.logprobe, nd), _r(e.logprobne, nd), _r(e.dist_obs, nd), _r(getattr(e, "d_o", None), nd), _r(getattr(e, "d_s", None), nd),
                             _r(getattr(e.edge_m, "ti", None), nd), _r(getattr(e.edge_o, "ti", None), nd)))
            layers.append(tuple(sorted(ents, key=repr)))
        cols.append(tuple(layers))
    return (tuple(cols), m.expand_now, m.max_lattice_width, None if m.path is None else len(m.path), m.early_stop_idx)


# ------------------------------------------------------------------ slices
def graph_slice(level):
    """Yields (posname, n, mask).  level: 'n3' (all graphs on 2-3 nodes), 'n4e3' (+ 4 nodes, <= 3 edges), 'n4e4', 'n4e6'."""
    for pos in ("GENERIC", "GRID"):
        for n in (2, 3):
            for mask in al.masks(n):
                yield (pos, n, mask)
    if level == "n3":
        return
    me = {"n4e2": 2, "n4e3": 3, "n4e4": 4, "n4e6": 6}[level]
    for pos in ("GENERIC", "GRID"):
        for mask in al.masks(4, max_edges=me):
            yield (pos, 4, mask)


def special_graphs():
    """Named larger graphs that reach non-emitting runs of depth >= 2, cycles and one-way stars.  -> (name, pos, graph)"""
    for pos in ("GENERIC", "GRID"):
        P = al.POS[pos]
        order = [0, 1, 3, 4, 2]          # a path through the five positions: 0-1-3-4 and back to 2
        pp = [P[i] for i in order]
        yield (f"chain5-2way-{pos}", pos, al.chain(5, pp, two_way=True))
        yield (f"chain5-1way-{pos}", pos, al.chain(5, pp, two_way=False))
        cyc = al.chain(4, [P[0], P[1], P[3], P[2]], two_way=False)
        cyc[3][1].append(0)
        yield (f"cycle4-1way-{pos}", pos, cyc)
        cyc2 = al.chain(4, [P[0], P[1], P[3], P[2]], two_way=True)
        cyc2[3][1].append(0)
        cyc2[0][1].append(3)
        yield (f"cycle4-2way-{pos}", pos, cyc2)
        star = {0: (P[0], [1, 2, 3]), 1: (P[1], []), 2: (P[2], []), 3: (P[3], [0])}
        yield (f"star-out-{pos}", pos, star)
        full = {a: (P[a], [b for b in range(4) if b != a]) for a in range(4)}
        yield (f"complete4-{pos}", pos, full)
        # a diamond: two detours 1->2->4 and 1->3->4 that re-converge, so that inside a non-emitting run the same lattice
        # entry is reached from two predecessors and an existing entry is replaced by a better candidate
        # (GENERIC: detours of different length; GRID: exactly symmetric detours, i.e. exact ties)
        if pos == "GENERIC":
            D = [(0.03, 0.01), (0.02, 1.04), (0.63, 1.81), (-0.38, 1.77), (0.05, 2.58), (0.01, 3.61), (0.04, 4.63)]
        else:
            D = [(0.0, 0.0), (0.0, 1.0), (0.5, 1.75), (-0.5, 1.75), (0.0, 2.5), (0.0, 3.5), (0.0, 4.5)]
        dia = {0: (D[0], [1]), 1: (D[1], [2, 3]), 2: (D[2], [4]), 3: (D[3], [4]), 4: (D[4], [5]), 5: (D[5], [6]), 6: (D[6], [])}
        yield (f"diamond7-1way-{pos}", pos, dia)
        # two road islands that are close to each other but not connected: a trace that walks from one to the other stops
        # early for lack of a transition (not for distance), which is what continue_with_distance() is for
        if pos == "GRID":
            I = [(0.0, 0.0), (0.0, 1.0), (0.0, 2.0), (0.5, 2.75), (0.5, 3.75), (0.5, 4.75)]
        else:
            I = [(0.03, 0.01), (0.02, 1.04), (-0.01, 2.03), (0.52, 2.71), (0.49, 3.77), (0.53, 4.72)]
        isl = {0: (I[0], [1]), 1: (I[1], [0, 2]), 2: (I[2], [1]), 3: (I[3], [4]), 4: (I[4], [3, 5]), 5: (I[5], [4])}
        yield (f"islands6-2way-{pos}", pos, isl)
        # a main road with a dead-end spur alongside it and a long side road that fans out far away from the trace: the
        # far branches are candidates that every cut-off rejects (they only exist as stopped entries under DEBUG)
        if pos == "GRID":
            Fo = [(0.0, 0.0), (0.0, 1.0), (0.0, 2.0), (0.0, 3.0), (0.0, 4.0), (0.0, 5.0), (0.0, 6.0), (0.8, 4.0), (-4.0, 1.0), (-6.0, 0.0), (-6.0, 1.0), (-6.0, 2.0)]
        else:
            Fo = [(0.02, 0.01), (0.01, 1.03), (-0.02, 2.02), (0.03, 2.98), (0.0, 4.01), (0.02, 5.03), (-0.01, 6.02), (0.81, 4.03), (-4.02, 1.01),
                  (-6.01, 0.03), (-5.98, 1.02), (-6.03, 1.97)]
        fan = {0: (Fo[0], [1]), 1: (Fo[1], [2, 7, 8]), 2: (Fo[2], [3]), 3: (Fo[3], [4]), 4: (Fo[4], [5]), 5: (Fo[5], [6]), 6: (Fo[6], []),
               7: (Fo[7], []), 8: (Fo[8], [9, 10, 11]), 9: (Fo[9], []), 10: (Fo[10], []), 11: (Fo[11], [])}
        yield (f"fanout12-1way-{pos}", pos, fan)
        if pos == "GENERIC":
            # two approach roads (0->1 and 2->3) that re-converge in node 5 and continue 5->6->7; 0->1 passes closest to the first
            # observation but continues far from the line between the observations, 2->3 is a bit further but continues along
            # it; 8->9 is a third start candidate on a dead end; 3->4 a second good continuation (one-way roads)
            A = [(0.0, -0.2), (4.0, 0.5), (-0.5, -1.0), (-0.5, 1.0), (-0.5, 4.0), (2.5, 5.0), (0.0, 8.0), (0.0, 12.0), (0.8, -1.0), (0.8, 1.0)]
            app = {0: (A[0], [1]), 1: (A[1], [5]), 2: (A[2], [3]), 3: (A[3], [5, 4]), 4: (A[4], []), 5: (A[5], [6]), 6: (A[6], [7]), 7: (A[7], []),
                   8: (A[8], [9]), 9: (A[9], [])}
            yield ("approach10-1way-GENERIC", pos, app)
        # two feeder roads converging into a dead end, and a separate island nearby (jump target)
        if pos == "GRID":
            Fd = [(0.5, 0.0), (-0.5, 0.0), (0.0, 1.0), (0.0, 2.0), (0.5, 2.75), (0.5, 3.75), (0.5, 4.75)]
        else:
            Fd = [(0.52, 0.03), (-0.49, -0.02), (0.02, 1.04), (-0.01, 2.03), (0.52, 2.71), (0.49, 3.77), (0.53, 4.72)]
        fd = {0: (Fd[0], [2]), 1: (Fd[1], [2]), 2: (Fd[2], [3]), 3: (Fd[3], []), 4: (Fd[4], [5]), 5: (Fd[5], [4, 6]), 6: (Fd[6], [5])}
        yield (f"feeders7-{pos}", pos, fd)
        # two one-way roads that cross in an X and re-converge after the same number of edges, then a single long road:
        # chains grown from two different emitting states of the same observation merge inside a non-emitting run
        if pos == "GRID":
            X = [(0.0, -1.0), (0.3, -1.0), (0.3, 1.0), (-0.3, 1.0), (0.2, 2.0), (0.2, 3.0), (0.2, 4.0), (0.2, 7.0)]
        else:
            X = [(0.01, -1.02), (0.31, -0.97), (0.29, 1.03), (-0.32, 0.98), (0.21, 2.04), (0.19, 3.01), (0.22, 4.02), (0.18, 7.03)]
        cross = {0: (X[0], [2]), 1: (X[1], [3]), 2: (X[2], [4]), 3: (X[3], [4]), 4: (X[4], [5]), 5: (X[5], [6]), 6: (X[6], [7]), 7: (X[7], [])}
        yield (f"cross8-1way-{pos}", pos, cross)
        if pos == "GRID":
            # a fork whose two branches are mirror images about the axis y = 0 for one layer and differ afterwards: with
            # observations ON the axis the two branch states tie EXACTLY inside a non-emitting run, and what is kept at a
            # width boundary decides between two different continuations
            F = [(0.0, 0.0), (0.0, 1.0), (0.5, 1.75), (-0.5, 1.75), (0.5, 2.75), (-1.0, 2.75), (0.0, 3.75), (0.0, 4.75)]
            fork = {0: (F[0], [1]), 1: (F[1], [2, 3]), 2: (F[2], [4]), 3: (F[3], [5]), 4: (F[4], [6]), 5: (F[5], [6]), 6: (F[6], [7]), 7: (F[7], [])}
            yield ("fork8-1way-GRID", pos, fork)
        dia2 = {0: (D[0], [1]), 1: (D[1], [0, 2, 3]), 2: (D[2], [1, 4]), 3: (D[3], [1, 4]), 4: (D[4], [2, 3, 5]), 5: (D[5], [4, 6]), 6: (D[6], [5])}
        yield (f"diamond7-2way-{pos}", pos, dia2)


AXIS_TRACES = [[(0.0, 0.5), (0.0, 4.25)], [(0.0, 0.5), (0.0, 3.0), (0.0, 4.5)], [(0.0, 0.25), (0.0, 0.75), (0.0, 4.25), (0.0, 4.5)],
               [(0.0, 0.5), (0.0, 2.0), (0.0, 4.25)]]


def axis_traces(graph):
    """Observations on the symmetry axis of the fork8 graph (exact ties); empty for every other graph."""
    if len(graph) == 8 and tuple(graph[0][0]) == (0.0, 0.0) and tuple(graph[3][0]) == (-0.5, 1.75):
        return [list(t) for t in AXIS_TRACES]
    if len(graph) == 8 and abs(graph[0][0][1] + 1.0) < 0.05 and abs(graph[7][0][1] - 7.0) < 0.05:
        # cross8: two observations around the crossing, then a long gap to the last road
        return [[(0.0, -0.5), (0.0, 0.5), (0.2, 6.0)], [(0.05, -0.6), (0.02, 0.4), (0.21, 5.5)], [(0.0, -0.5), (0.2, 6.0)],
                [(0.15, -0.5), (0.0, 0.5), (0.2, 3.5), (0.2, 6.5)]]
    if len(graph) == 12 and abs(graph[8][0][0] + 4.0) < 0.05:
        # fanout12: sparse observations along the main road
        return [[(0.0, 0.5), (0.2, 3.5), (-0.1, 4.7), (0.1, 5.6)], [(0.0, 0.5), (0.2, 3.5)], [(0.0, 0.5), (-0.1, 4.7), (0.1, 5.6)]]
    if len(graph) == 10 and tuple(graph[1][0]) == (4.0, 0.5):
        # approach10: from the junction area to the far end, with and without an observation in between
        return [[(0.0, 0.0), (0.0, 10.0)], [(0.0, 0.0), (0.5, 5.0), (0.0, 10.0)], [(0.2, -0.5), (0.0, 10.0)]]
    return []


def build_graph(gs, labels="int", selfnbr=False):
    """gs: (pos, n, mask) or (name, pos, graph-dict) or {'graph': {...}} explicit."""
    if isinstance(gs, dict):
        g = gs["graph"]
        return {_lbl(k): (tuple(v[0]), [_lbl(x) for x in v[1]]) for k, v in g.items()}
    if len(gs) == 3 and isinstance(gs[2], dict):
        return {k: (tuple(v[0]), list(v[1])) for k, v in gs[2].items()}
    pos, n, mask = gs
    return al.graph_from_mask(n, mask, al.POS[pos], labels=labels, selfnbr=selfnbr)


def _lbl(k):
    if isinstance(k, str) and k.lstrip("-").isdigit():
        return int(k)
    return k


def explicit(graph):
    """JSON-able explicit graph spec for replay files."""
    return {"graph": {str(k): [list(v[0]), list(v[1])] for k, v in graph.items()}}


def obs_for(pos, n_obs):
    return al.OBS[pos][:n_obs]


def set_debug(on):
    bind.LOG.setLevel(logging.DEBUG if on else logging.ERROR)
