"""The explorer: exhaustive, sharded enumeration of a finite case space with an oracle on
every case; evidence and replay-file writers; KNOWN-FINDING / VIOLATION protocol.

A *check module* provides

    ID            property id, e.g. "C13"
    TITLE         one line
    def space(tier) -> dict          bounds of the tier (free-form, goes into the evidence)
    def cases(tier) -> iterator      deterministic enumeration of JSON-able cases, simplest first
    def run_case(case) -> dict       executes the real code on the case and evaluates the oracle
    RULE          text: how cases are enumerated and what makes one non-trivial
    BUDGET        {"quick": seconds, "thorough": seconds} wall-clock caps (reported when hit)
    ASSUMPTIONS   list of strings

run_case returns a dict with (all optional except n):
    n        number of implementation executions performed
    st, tr   product states reached / transitions evaluated (meaning stated in RULE)
    tv       traces validated against the implementation
    nt       number of distinct non-trivial sub-cases
    out      list of hashable outcome fingerprints (for counting distinct outcomes)
    v        list of violations: {"msg": str, "case": minimal case that re-runs just this}
    k        list of known-finding hits: {"id": "D2", "msg": str, "case": ...}
"""
import hashlib
import json
import multiprocessing as mp
import os
import subprocess
import sys
import time
import traceback

VERIF = os.path.dirname(os.path.dirname(os.path.abspath(__file__)))
# (the two overrides exist so that trial runs against a scratch copy of the repository do not overwrite the
# evidence of the registered checks; the registered commands never set them)
EVID_DIR = os.environ.get("VERIF_EVIDENCE_DIR") or os.path.join(VERIF, "evidence")
REPLAY_DIR = os.environ.get("VERIF_REPLAY_DIR") or os.path.join(VERIF, "replays")
KNOWN_FILE = os.path.join(VERIF, "known_findings.json")
MAX_VIOL_KEPT = 20


def fp(obj):
    """Deterministic 64-bit fingerprint of a JSON-able / repr-able outcome."""
    return hashlib.blake2b(repr(obj).encode(), digest_size=8).digest()


def jsonable(o):
    if isinstance(o, dict):
        return {str(k): jsonable(v) for k, v in o.items()}
    if isinstance(o, (list, tuple, set, frozenset)):
        return [jsonable(x) for x in o]
    if isinstance(o, float):
        if o != o or o in (float("inf"), float("-inf")):
            return repr(o)
        return o
    if isinstance(o, (int, str, bool)) or o is None:
        return o
    try:
        import numpy as np
        if isinstance(o, np.generic):
            return jsonable(o.item())
    except Exception:
        pass
    return repr(o)


def load_known():
    try:
        data = json.load(open(KNOWN_FILE))
    except FileNotFoundError:
        return {}
    res = {}
    for ent in data.get("known", []):
        res[(ent["property"], ent["finding"])] = ent
    return res


def _worker(mod, tier, k, nworkers, budget, conn):
    t0 = time.time()
    agg = dict(n=0, st=0, tr=0, tv=0, nt=0, cases=0, outs=set(), v=[], nv=0, k={}, first=None, last=None,
               first_nt=None, capped=False, reached=-1, err=None, extra={})
    try:
        det_checked = 0
        for i, case in enumerate(mod.cases(tier)):
            if i % nworkers != k:
                continue
            if time.time() - t0 > budget:
                agg["capped"] = True
                break
            try:
                r = mod.run_case(case)
            except Exception as exc:  # noqa
                # An exception that escapes from LIBRARY code (a frame under the repository) while the harness was not
                # guarding the call is a failure of the code under test on this case, not of the harness: report it
                # as a violation with the case as replay.  Anything else is a harness error.
                import traceback as _tb
                from mc import bind as _bind
                frames = _tb.extract_tb(exc.__traceback__)
                if any(os.path.realpath(f.filename).startswith(_bind.REPO + os.sep) for f in frames):
                    lib = [f for f in frames if os.path.realpath(f.filename).startswith(_bind.REPO + os.sep)][-1]
                    r = {"n": 1, "st": 1, "tr": 1, "nt": 0,
                         "v": [{"msg": f"the library raised {exc!r} at {os.path.relpath(lib.filename, _bind.REPO)}:{lib.lineno} ({lib.name}) "
                                       f"while the check was setting up / running this case", "case": case}]}
                else:
                    raise
            if det_checked < 2:
                # replay determinism: the same case must give the same observation twice
                try:
                    r2 = mod.run_case(case)
                except Exception:  # noqa
                    r2 = r
                det_checked += 1
                a = (r.get("out"), len(r.get("v", ())), r.get("n"))
                b = (r2.get("out"), len(r2.get("v", ())), r2.get("n"))
                if a != b:
                    if r.get("v") or r2.get("v"):
                        # The oracle fired on the real code in at least one of the two executions: that observation stands on
                        # its own (the replay file re-executes the case in a fresh process).  That the second execution of the
                        # same case in the same process differs means the LIBRARY carries state from one run to the next
                        # (a class-level or module-level cache) - reported with the violation, not as a harness error.
                        if not r.get("v"):
                            r = r2
                        r["v"] = list(r["v"]) + [{"msg": "the same case executed twice in one process gave different observations "
                                                         f"({a[1]} vs {b[1]} oracle failures): the library keeps state across runs",
                                                  "case": (r["v"][0].get("case") if r["v"] else case)}]
                    else:
                        raise RuntimeError(f"non-deterministic replay of case {case!r}: {a!r} vs {b!r}")
            agg["cases"] += 1
            agg["reached"] = i
            agg["n"] += r.get("n", 1)
            agg["st"] += r.get("st", 0)
            agg["tr"] += r.get("tr", 0)
            agg["tv"] += r.get("tv", 0)
            agg["nt"] += r.get("nt", 0)
            for o in r.get("out", ()):
                if len(agg["outs"]) < 400000:
                    agg["outs"].add(o if isinstance(o, bytes) else fp(o))
            for key, val in r.get("extra", {}).items():
                agg["extra"][key] = agg["extra"].get(key, 0) + val
            if agg["first"] is None:
                agg["first"] = case
            agg["last"] = case
            if agg["first_nt"] is None and r.get("nt", 0):
                agg["first_nt"] = case
            for viol in r.get("v", ()):
                agg["nv"] += 1
                if len(agg["v"]) < MAX_VIOL_KEPT:
                    agg["v"].append((i, viol))
            for hit in r.get("k", ()):
                ent = agg["k"].setdefault(hit["id"], {"count": 0, "first": None})
                ent["count"] += 1
                if ent["first"] is None:
                    ent["first"] = (i, hit)
    except BaseException:
        agg["err"] = traceback.format_exc()
    agg["wall"] = time.time() - t0
    try:
        # scratch files of this worker (SQLite maps, pickles): forked workers do not run atexit handlers
        from mc import maps as _maps
        _maps.cleanup()
    except Exception:  # noqa
        pass
    try:
        conn.send(agg)
    finally:
        conn.close()


def explore(mod, tier, seed, nworkers=None, budget=None):
    nworkers = nworkers or int(os.environ.get("VERIF_WORKERS", "16"))
    if budget is None:
        budget = float(os.environ.get("VERIF_BUDGET", mod.BUDGET[tier]))
    ctx = mp.get_context("fork")
    procs = []
    order = list(range(nworkers))
    # the seed only changes the order in which shards are started, never what is explored
    rot = seed % nworkers
    order = order[rot:] + order[:rot]
    for k in order:
        parent, child = ctx.Pipe(duplex=False)
        p = ctx.Process(target=_worker, args=(mod, tier, k, nworkers, budget, child))
        p.start()
        child.close()
        procs.append((k, p, parent))
    results = {}
    for k, p, parent in procs:
        try:
            results[k] = parent.recv()
        except EOFError:
            results[k] = {"err": f"worker {k} died without a result (exit code {p.exitcode})"}
        p.join()
    return [results[k] for k in range(nworkers)]


def write_replay(prop, mod, viol, kind="violation"):
    os.makedirs(REPLAY_DIR, exist_ok=True)
    body = {"property": prop, "check": mod.__name__.split(".")[-1], "kind": kind,
            "message": viol["msg"], "case": jsonable(viol["case"])}
    if hasattr(mod, "describe"):
        try:
            body["explained"] = jsonable(mod.describe(viol["case"]))
        except Exception:
            pass
    h = hashlib.blake2b(json.dumps(body["case"], sort_keys=True).encode(), digest_size=5).hexdigest()
    path = os.path.join(REPLAY_DIR, f"{prop}-{h}.json")
    with open(path, "w") as f:
        json.dump(body, f, indent=1, sort_keys=True)
    return path


def validate_evidence(path):
    """Validate against the schema with jsonschema (tooling venv) when available."""
    schema = "/root/.vp/EVIDENCE.schema.json"
    if not os.path.exists(schema):
        schema = os.path.join(VERIF, "tools", "EVIDENCE.schema.json")
    code = ("import json,sys,jsonschema;"
            "jsonschema.validate(json.load(open(sys.argv[1])), json.load(open(sys.argv[2])))")
    for py in ("python3-vt", "/opt/veriftools/pyvenv/bin/python"):
        try:
            r = subprocess.run([py, "-c", code, path, schema], capture_output=True, text=True, timeout=60)
        except (FileNotFoundError, subprocess.TimeoutExpired):
            continue
        if r.returncode == 0:
            return True, "jsonschema"
        if "ModuleNotFoundError" in r.stderr:
            continue
        return False, r.stderr[-2000:]
    # structural fallback
    d = json.load(open(path))
    cov = d.get("coverage", {})
    ok = all(k in d for k in ("property_id", "tier", "seed", "level", "coverage", "wall_s")) and \
        cov.get("states", 0) >= 1 and cov.get("transitions", 0) >= 1 and len(cov.get("samples", [])) >= 1
    return ok, "structural"


def run_check(mod, tier, seed):
    t0 = time.time()
    prop = mod.ID
    known = load_known()
    parts = explore(mod, tier, seed)
    errs = [p["err"] for p in parts if p.get("err")]
    nondet = [e for e in errs if "non-deterministic replay" in e]
    if errs and len(nondet) == len(errs) and any(p.get("v") for p in parts):
        # Some workers saw the same case give different (violation-free) outcomes twice while other workers saw the oracle
        # fail: the failures are observations on the real code and are reported; the divergence (library state that survives
        # from one run to the next) is mentioned with them.  Without any oracle failure a divergence stays a harness error.
        print(f"NOTE: {len(nondet)} worker(s) stopped because one case gave different outcomes when executed twice in one process "
              f"(state kept by the library across runs); the oracle failures found by the other workers are reported below")
        errs = []
        for p in parts:
            if p.get("err"):
                p["capped"] = True          # that worker's share of the enumeration is incomplete: never call the run exhaustive
    if errs:
        print(f"BROKEN: check {prop} crashed in the harness (this is not a verdict about the property):")
        print(errs[0])
        return 2
    tot = dict(n=0, st=0, tr=0, tv=0, nt=0, cases=0, nv=0)
    outs = set()
    viols, hits, extra = [], {}, {}
    capped = False
    for p in parts:
        for key in tot:
            tot[key] += p[key]
        outs |= p["outs"]
        viols.extend(p["v"])
        capped |= p["capped"]
        for key, val in p["extra"].items():
            extra[key] = extra.get(key, 0) + val
        for fid, ent in p["k"].items():
            h = hits.setdefault(fid, {"count": 0, "first": None})
            h["count"] += ent["count"]
            if h["first"] is None or ent["first"][0] < h["first"][0]:
                h["first"] = ent["first"]
    viols.sort(key=lambda t: t[0])
    # known findings: only the ones listed in the committed file are downgraded
    known_lines = []
    for fid, h in sorted(hits.items()):
        ent = known.get((prop, fid))
        if ent is None:
            # not listed (or only listed as fixed): this is a violation like any other
            tot["nv"] += h["count"]
            viols.append((h["first"][0], {"msg": f"[{fid}] " + h["first"][1]["msg"], "case": h["first"][1]["case"]}))
        else:
            known_lines.append(f"KNOWN-FINDING: property={prop} {fid}: {ent['what']} "
                               f"[{h['count']} explored cases match the recorded predicate; first: "
                               f"{json.dumps(jsonable(h['first'][1]['case']))[:300]}]")
    viols.sort(key=lambda t: t[0])
    samples = []
    p0 = parts[0]
    for tag, src in (("first", p0.get("first")), ("first_nontrivial", next((p["first_nt"] for p in parts if p.get("first_nt") is not None), None)),
                     ("last_of_shard0", p0.get("last"))):
        if src is not None:
            s = {"which": tag, "case": jsonable(src)}
            if hasattr(mod, "describe"):
                try:
                    s["explained"] = jsonable(mod.describe(src))
                except Exception:
                    pass
            samples.append(s)
    wall = time.time() - t0
    cov = {
        "evaluations": tot["n"],
        "cases": tot["cases"],
        "states": tot["st"],
        "transitions": tot["tr"],
        "traces_validated_against_impl": tot["tv"],
        "distinct_nontrivial": tot["nt"],
        "distinct_outcomes": len(outs),
        "rule": mod.RULE,
        "samples": samples,
        "exhaustive": not capped,
        "bounds": jsonable(mod.space(tier)),
        "workers": len(parts),
        "known_finding_hits": {fid: h["count"] for fid, h in hits.items()},
    }
    if capped:
        cov["cap"] = {"kind": "wall-clock budget per worker (s)", "value": float(os.environ.get("VERIF_BUDGET", mod.BUDGET[tier])),
                      "covered": "every case with enumeration index <= %d was explored completely; later indices partially" %
                                 min(p["reached"] for p in parts)}
    cov.update({k: v for k, v in extra.items()})
    ev = {"property_id": prop, "tier": tier, "seed": seed, "level": "model_checking", "coverage": cov,
          "assumptions": list(getattr(mod, "ASSUMPTIONS", [])), "wall_s": round(wall, 3), "violations": tot["nv"]}
    os.makedirs(EVID_DIR, exist_ok=True)
    evp = os.path.join(EVID_DIR, f"{prop}.json")
    with open(evp, "w") as f:
        json.dump(ev, f, indent=1)
    ok, how = validate_evidence(evp)
    if not ok:
        print(f"BROKEN: evidence file {evp} does not validate: {how}")
        return 2
    print(f"{prop} [{tier}] cases={tot['cases']} executions={tot['n']} states={tot['st']} transitions={tot['tr']} "
          f"validated={tot['tv']} nontrivial={tot['nt']} outcomes={len(outs)} exhaustive={not capped} "
          f"wall={wall:.1f}s evidence={evp} ({how})")
    for line in known_lines:
        print(line)
    if not viols and (tot["cases"] == 0 or (tot["nt"] == 0 and not getattr(mod, "ALLOW_NO_NONTRIVIAL", False))):
        print(f"BROKEN: check {prop} explored nothing non-trivial (cases={tot['cases']}, nontrivial={tot['nt']}); vacuous run")
        return 2
    if viols:
        first = viols[0][1]
        path = write_replay(prop, mod, first)
        for _, other in viols[1:MAX_VIOL_KEPT]:
            write_replay(prop, mod, other)
        print(f"  first violation: {first['msg'][:600]}")
        print(f"  ({tot['nv']} violating sub-cases in total; {min(len(viols), MAX_VIOL_KEPT)} replay files written)")
        print(f"VIOLATION property={prop} replay={path}")
        return 1
    return 0


def replay(path):
    body = json.load(open(path))
    import importlib
    mod = importlib.import_module("checks." + body["check"])
    r = mod.run_case(body["case"])
    known = load_known()
    bad = list(r.get("v", ()))
    for hit in r.get("k", ()):
        if (mod.ID, hit["id"]) in known:
            print(f"KNOWN-FINDING: property={mod.ID} {hit['id']}: {hit['msg']}")
        else:
            bad.append(hit)
    if bad:
        for viol in bad:
            print("  violation:", viol["msg"])
        print(f"VIOLATION property={mod.ID} replay={path}")
        return 1
    print(f"replay of {path}: property {mod.ID} holds on this case")
    return 0
