"""Finite alphabets and deterministic, simplest-first enumerators shared by the matcher-level checks."""
import itertools

# ---- node positions (y, x)
GRID = [(0.0, 0.0), (0.0, 2.0), (2.0, 0.0), (2.0, 2.0), (1.0, 4.0)]
GENERIC = [(0.03, 0.01), (0.11, 2.07), (2.05, 0.13), (1.93, 2.21), (1.07, 4.03)]
ZERO = [(0.0, 0.0), (0.0, 2.0), (0.0, 0.0)]       # node 2 co-located with node 0: zero-length roads 0<->2
POS = {"GRID": GRID, "GENERIC": GENERIC, "ZERO": ZERO}

# ---- observation alphabets
# GRID: on a node, on an edge interior, beside an edge, inside the square, outlier beyond max_dist, between node 1 and 3
OBS_GRID = [(0.0, 0.0), (0.0, 1.0), (1.0, 1.0), (1.0, 3.0), (3.0, 1.0), (0.5, 2.0)]
OBS_GENERIC = [(0.17, 0.12), (0.21, 1.34), (1.21, 0.9), (1.12, 2.87), (3.1, 1.2), (0.6, 2.13)]
OBS = {"GRID": OBS_GRID, "GENERIC": OBS_GENERIC, "ZERO": OBS_GRID}
FAR = {"GRID": (9.0, 9.0), "GENERIC": (9.13, 8.91), "ZERO": (9.0, 9.0)}


def pairs(n):
    return [(a, b) for a in range(n) for b in range(n) if a != b]


def masks(n, max_edges=None, min_edges=1):
    """All non-empty directed edge subsets over n nodes as bit masks, fewest edges first."""
    np_ = len(pairs(n))
    byc = {}
    for mask in range(1, 1 << np_):
        c = bin(mask).count("1")
        if c < min_edges or (max_edges is not None and c > max_edges):
            continue
        byc.setdefault(c, []).append(mask)
    for c in sorted(byc):
        for m in byc[c]:
            yield m


def label(i, labels="int"):
    if labels == "int":
        return i
    if labels == "str":
        return "n%d" % i
    if labels == "strrev":       # reverse lexical order
        return "z%d" % (9 - i)
    if labels == "intrev":
        return 100 - i
    if labels == "strempty":
        return "" if i == 1 else "m%d" % i
    if labels == "bigint":       # equal labels are DISTINCT objects (not the interpreter's cached small integers)
        return 10 ** 6 + int(i)
    if labels == "tuple":
        return ("n", int(i))
    raise ValueError(labels)


def graph_from_mask(n, mask, pos, labels="int", selfnbr=False):
    """-> {label: (pos, [neighbours])} with neighbours in pair-enumeration order."""
    pr = pairs(n)
    g = {label(a, labels): (tuple(pos[a]), []) for a in range(n)}
    for i, (a, b) in enumerate(pr):
        if mask >> i & 1:
            g[label(a, labels)][1].append(label(b, labels))
    if selfnbr:
        for a in range(n):
            g[label(a, labels)][1].append(label(a, labels))
    return g


def chain(n, pos, two_way=True, labels="int"):
    g = {label(a, labels): (tuple(pos[a]), []) for a in range(n)}
    for a in range(n - 1):
        g[label(a, labels)][1].append(label(a + 1, labels))
        if two_way:
            g[label(a + 1, labels)][1].append(label(a, labels))
    return g


def describe_graph(g):
    return {"nodes": {str(k): list(v[0]) for k, v in g.items()}, "edges": [[a, b] for a, v in g.items() for b in v[1]]}


def traces(obs, tmin, tmax):
    for T in range(tmin, tmax + 1):
        for t in itertools.product(obs, repeat=T):
            yield list(t)


def nedges(mask):
    return bin(mask).count("1")
