"""Reference HMM, written from the documentation and the property statements.

* all_walks: explicit-state search of the product (road state x observation index): every admissible walk is
  enumerated, no dynamic programming, no pruning  (oracle of C01, third witness of C06).
* replay: the implementation's own best path is re-scored state by state by the documented model (C02, C05).
* structure / walk relation predicates (C03, C04).
"""
import math

from mc import refgeom as rg

LOG = math.log
INF = float("inf")

DEFAULTS = dict(fam="S", ne=False, avoid=False, max_dist=None, max_dist_init=None, min_prob_norm=None,
                obs_noise=1.0, obs_noise_ne=None, dist_noise=None, dist_noise_ne=None, width=None, ne_factor=0.75, maxnb=None)


def norm_cfg(cfg):
    c = dict(DEFAULTS)
    c.update(cfg)
    return c


def is_edge(s):
    return len(s) == 2


class Geo:
    def __init__(self, latlon=False):
        self.latlon = latlon

    def d(self, p, q):
        return rg.sph_dist(p, q) if self.latlon else rg.dist(p, q)

    def p2s(self, p, a, b):
        """-> (distance, nearest point, relative position)"""
        return rg.sph_pt_seg(p, a, b) if self.latlon else rg.pt_seg(p, a, b)

    def s2s(self, a, b, c, d):
        return rg.sph_segseg(a, b, c, d) if self.latlon else rg.segseg(a, b, c, d)


class Model:
    def __init__(self, graph, cfg, latlon=False, linked=None):
        self.g = graph
        self.c = norm_cfg(cfg)
        self.geo = Geo(latlon)
        self.only_edges = self.c["fam"] != "SN"
        self.kind = "distance" if self.c["fam"] == "D" else "simple"
        self.max_dist = self.c["max_dist"] if self.c["max_dist"] else INF
        self.max_dist_init = self.c["max_dist_init"] if self.c["max_dist_init"] else self.max_dist
        self.minlp = LOG(self.c["min_prob_norm"]) if self.c["min_prob_norm"] else -INF
        self.sig = self.c["obs_noise"]
        self.sig_ne = self.c["obs_noise_ne"] if self.c["obs_noise_ne"] is not None else self.sig
        self.beta = self.c["dist_noise"] if self.c["dist_noise"] is not None else self.sig
        self.beta_ne = self.c["dist_noise_ne"] if self.c["dist_noise_ne"] is not None else self.beta
        self.linked = linked or {}
        self.edges = [(a, b) for a, (loc, nb) in graph.items() for b in dict.fromkeys(nb) if a != b and b in graph]
        self.edgeset = set(self.edges)

    # ------------------------------------------------------------ states and moves
    def loc(self, a):
        return self.g[a][0]

    def states(self):
        return list(self.edges) if self.only_edges else list(self.edges) + [(a,) for a in self.g]

    def start_states(self):
        return list(self.edges) if self.only_edges else [(a,) for a in self.g]

    def succ(self, s):
        """Moves the documented model offers from state s (emitting step)."""
        out = [s]
        if is_edge(s):
            if self.only_edges:
                for c in self.g[s[1]][1]:
                    t = (s[1], c)
                    if c != s[1] and t in self.edgeset and t not in out:
                        out.append(t)
                for t in self.linked.get(s, ()):
                    t = tuple(t)
                    if t[0] != s[0] and t[1] != s[1] and t not in out:
                        out.append(t)
            else:
                out.append((s[1],))
        else:
            for c in self.g[s[0]][1]:
                if c != s[0] and c in self.g:
                    if (c,) not in out:
                        out.append((c,))
                    if (s[0], c) not in out:
                        out.append((s[0], c))
        return out

    def place(self, s, o):
        """-> (nearest point on the state, relative position, distance) for an observation point o."""
        if not is_edge(s):
            return tuple(self.loc(s[0])), 0.0, self.geo.d(self.loc(s[0]), o)
        d, pi, ti = self.geo.p2s(o, self.loc(s[0]), self.loc(s[1]))
        return pi, ti, d

    # ------------------------------------------------------------ scores
    def lp_obs(self, d, ne=False):
        sig = self.sig_ne if ne else self.sig
        return -d * d / (2.0 * sig * sig)

    def lp_trans_first_order(self, ps, ppi, po, s, pi, o):
        """Transition term without the second-order 'going back' penalties (avoid_goingback=False)."""
        if self.kind == "simple":
            return 0.0 if ps == s else LOG(0.9)
        d_z = self.geo.d(po, o)
        same = (ps == s) or (is_edge(ps) and is_edge(s) and ps == (s[1], s[0]))
        if same or ps[-1] != s[0]:
            d_x = self.geo.d(ppi, pi)
        else:
            d_x = self.geo.d(ppi, self.loc(ps[1])) + self.geo.d(self.loc(ps[1]), pi)
        lp = -(abs(d_z - d_x)) ** 2 / (2.0 * self.beta ** 2)
        if not same and ps[-1] != s[0]:
            lp += LOG(0.5)
        return lp

    # ------------------------------------------------------------ all walks (emitting only, first order)
    def all_walks(self, trace, start_allowed=None):
        """Explicit search over all admissible walks.  start_allowed: optional set of start states (used to evaluate the
        D2 predicate).  -> dict(last, best, walks, nstates, ntrans, nprobs)"""
        st = tr = 0
        cur = {}
        for s in self.start_states():
            if start_allowed is not None and s not in start_allowed:
                continue
            pi, ti, d = self.place(s, trace[0])
            st += 1
            if not d < self.max_dist_init:
                continue
            lp = self.lp_obs(d)
            if lp < self.minlp or d > self.max_dist:
                continue
            cur[(s,)] = (lp, pi)
        if not cur:
            return dict(last=-1, best=None, walks=[], nstates=st, ntrans=tr, nprobs=0)
        last = 0
        for k in range(1, len(trace)):
            nxt = {}
            for w, (lp, ppi) in cur.items():
                ps = w[-1]
                for s in self.succ(ps):
                    tr += 1
                    pi, ti, d = self.place(s, trace[k])
                    if not self.only_edges and is_edge(s) and (abs(ti) <= 1e-8 or abs(ti - 1.0) <= 1e-8):
                        continue   # with node states an edge state is not used for an observation that projects on an end point
                    nlp = lp + self.lp_trans_first_order(ps, ppi, trace[k - 1], s, pi, trace[k]) + self.lp_obs(d)
                    if nlp / (k + 1) < self.minlp or d > self.max_dist:
                        continue
                    nxt[w + (s,)] = (nlp, pi)
            if not nxt:
                break
            st += len({(w[-1], k) for w in nxt})
            cur = nxt
            last = k
        b = max(v[0] for v in cur.values())
        tol = 1e-9 * max(1.0, abs(b))
        probs = sorted({round(v[0], 9) for v in cur.values()})
        return dict(last=last, best=b, walks=[w for w, v in cur.items() if abs(v[0] - b) <= tol], nstates=st, ntrans=tr,
                    nprobs=len(probs), nwalks=len(cur))

    def walk_prob(self, walk, trace):
        """Model probability of an emitting-only walk, None if inadmissible."""
        lp = None
        ppi = None
        for k, s in enumerate(walk):
            pi, ti, d = self.place(s, trace[k])
            if k == 0:
                if not d < self.max_dist_init:
                    return None
                lp = self.lp_obs(d)
            else:
                if s not in self.succ(walk[k - 1]):
                    return None
                if not self.only_edges and is_edge(s) and (abs(ti) <= 1e-8 or abs(ti - 1.0) <= 1e-8):
                    return None
                lp += self.lp_trans_first_order(walk[k - 1], ppi, trace[k - 1], s, pi, trace[k]) + self.lp_obs(d)
            if lp / (k + 1) < self.minlp or d > self.max_dist:
                return None
            ppi = pi
        return lp


# ================================================================= replay of an implementation path
def state_of(e):
    s = e.edge_m
    return (s.l1,) if s.l2 is None else (s.l1, s.l2)


def replay(m, trace, kind, latlon=False, tol=1e-9, unit=1.0, resync=False):
    """Re-score matcher m's lattice_best with the documented model.
    -> list of (tag, message); tags: 'score' (C02), 'geom' and 'cut' (C05).  Also returns the number of checked states."""
    v = []
    lb = m.lattice_best
    if not lb:
        return v, 0
    geo = Geo(latlon)

    def close(a, b, t=tol):
        return abs(a - b) <= t * max(1.0, abs(a), abs(b))

    dtol = 0.05 if latlon else None      # geodesic distances: 5 cm (see DESIGN section 4)
    ptol = 0.25 if latlon else None

    def dclose(a, b):
        if latlon:
            return abs(a - b) <= dtol + 1e-6 * abs(b)
        return abs(a - b) <= tol * max(unit, abs(a), abs(b))      # unit: the length scale of the input (1 for the standard alphabets)

    ne_len = m.ne_length_factor_log
    avoid = getattr(m, "avoid_goingback", True)
    sig = m.obs_noise
    sig_ne = m.obs_noise_ne
    prev = None
    pprev = None
    R = {}
    for j, e in enumerate(lb):
        s = e.edge_m
        isnode = s.l2 is None
        i, k = e.obs, e.obs_ne
        if not (0 <= i < len(trace)) or (k > 0 and i + 1 >= len(trace)):
            v.append(("score", f"[{j}] state {e.key} refers to an observation outside the trace"))
            return v, j
        # ---------------- geometry of this state
        if k == 0:
            o = tuple(trace[i][:2])
            if isnode:
                d = geo.d(s.p1, o)
                pim = tuple(s.p1)
            else:
                d, pim, tim = geo.p2s(o, s.p1, s.p2)
                if s.pi is None or geo.d(pim, s.pi) > (ptol if latlon else 1e-9 * max(unit, abs(pim[0]), abs(pim[1]))):
                    v.append(("geom", f"[{j}] {e.key}: reported position {s.pi} is not the nearest point {pim} of the edge to observation {o}"))
                seglen = geo.d(s.p1, s.p2)
                if seglen > 0 and (s.ti is None or abs(tim - s.ti) * (seglen if latlon else 1.0) > (ptol if latlon else 1e-9)):
                    v.append(("geom", f"[{j}] {e.key}: reported relative position {s.ti} != {tim}"))
            pio = o
        else:
            o1, o2 = tuple(trace[i][:2]), tuple(trace[i + 1][:2])
            if isnode:
                d, pio, tio = geo.p2s(s.p1, o1, o2)
                pim = tuple(s.p1)
            else:
                d = geo.s2s(s.p1, s.p2, o1, o2)
                pim = s.pi
                pio = e.edge_o.pi
                # witness points: not prescribed when the minimum is not unique, but they must realise the minimum
                wd = geo.d(pim, pio)
                if latlon:
                    ext = max(geo.d(s.p1, x) for x in (s.p2, o1, o2)) + geo.d(o1, o2)
                    wt = 0.05 + 3.0 * ext ** 2 * max(math.tan(math.radians(abs(s.p1[0]))), 0.05) / rg.R_EARTH + 0.25
                    if abs(wd - d) > wt:
                        v.append(("geom", f"[{j}] {e.key}: witness points of the non-emitting state are {wd} apart, true minimum {d}"))
                elif abs(wd - d) > 1e-9 * max(unit, d):
                    v.append(("geom", f"[{j}] {e.key}: witness points of the non-emitting state are {wd} apart, true minimum {d}"))
        if latlon and k > 0 and not isnode:
            ext = max(geo.d(s.p1, x) for x in (s.p2, trace[i][:2], trace[i + 1][:2]))
            okd = abs(e.dist_obs - d) <= 0.05 + 3.0 * ext ** 2 * max(math.tan(math.radians(abs(s.p1[0]))), 0.05) / rg.R_EARTH
        else:
            okd = dclose(e.dist_obs, d)
        if not okd:
            v.append(("geom", f"[{j}] {e.key}: reported distance {e.dist_obs} != true distance {d} to its observation"))
            v.append(("score", f"[{j}] {e.key}: dist_obs {e.dist_obs} != model {d}"))
        # from here on the scores are computed from the implementation's (validated) distance, so that a geodesic
        # rounding difference of centimetres is not amplified into the probabilities
        dd = e.dist_obs if okd else d
        sg = sig_ne if k else sig
        lpo = -dd * dd / (2.0 * sg * sg)
        if prev is None:
            lp, lpe, lpne, length, d_o, d_s, lpt = lpo, lpo, 0.0, 1, 0.0, 0.0, 0.0
        else:
            p = prev
            ps = p.edge_m
            cur_pim = tuple(s.p1) if isnode else (s.pi if (k > 0 or latlon) else pim)
            prev_pim = tuple(ps.p1) if ps.l2 is None else ps.pi
            cur_pio = e.edge_o.pi if k > 0 else pio
            prev_pio = p.edge_o.pi
            same_label = (ps.l1, ps.l2) == (s.l1, s.l2)
            pp_same = pprev is not None and (pprev.edge_m.l1, pprev.edge_m.l2) == (s.l1, s.l2)
            if kind == "simple":
                lpt = 0.0
                if same_label:
                    if avoid and not isnode and s.ti < ps.ti:
                        lpt += LOG(0.99)
                else:
                    lpt += LOG(0.9)
                    if avoid and pp_same:
                        lpt += LOG(0.5)
                d_o = d_s = 0.0
            else:
                d_z = geo.d(prev_pio, cur_pio)
                rev = (ps.l1, ps.l2) == (s.l2, s.l1)
                if same_label or rev or ps.l2 != s.l1:
                    d_x = geo.d(prev_pim, cur_pim)
                else:
                    d_x = geo.d(prev_pim, ps.p2) + geo.d(ps.p2, cur_pim)
                if k:
                    d_z += R["d_o"]
                    d_x += R["d_s"]
                beta = 2.0 * (m.dist_noise_ne if (k or p.obs_ne) else m.dist_noise) ** 2
                lpt = -(abs(d_z - d_x)) ** 2 / beta
                if same_label:
                    if avoid and s.ti < ps.ti:
                        lpt += LOG(0.5)
                elif rev:
                    if avoid:
                        lpt += LOG(0.5)
                else:
                    if ps.l2 != s.l1:
                        lpt += LOG(0.5)
                    elif avoid and pp_same:
                        lpt += LOG(0.5)
                d_o, d_s = d_z, d_x
            delta = lpt + lpo
            if k == 0:
                lp = R["lp"] + delta
                lpe, lpne, length = lp, 0.0, R["len"] + 1
            else:
                lpe = R["lpe"] + ne_len
                lpne = min(R["lpne"], delta)
                lp = lpe + lpne
                length = R["len"]
        R = dict(lp=lp, lpe=lpe, lpne=lpne, len=length, d_o=d_o, d_s=d_s)
        ltol = 1e-6 if latlon else tol
        if not close(e.logprob, lp, ltol):
            v.append(("score", f"[{j}] {e.key}: reported logprob {e.logprob} != model {lp} for this path prefix"))
            R["mismatch_at"] = j
            if resync:
                # judge every later step on its own, given the REPORTED values of its predecessor: a mismatch then names
                # exactly one inconsistent link of the chain instead of all its descendants
                R.update(lp=e.logprob, lpe=e.logprobe, lpne=e.logprobne)
        if e.length != length:
            v.append(("score", f"[{j}] {e.key}: reported length {e.length} != number of emitting states {length}"))
        if k > 0 and (not close(e.logprobe, lpe, ltol) or not close(e.logprobne, lpne, ltol)):
            v.append(("score", f"[{j}] {e.key}: emitting/non-emitting parts {e.logprobe},{e.logprobne} != model {lpe},{lpne}"))
        if kind != "simple" and prev is not None:
            if not close(e.d_o, d_o, ltol) or not close(e.d_s, d_s, ltol):
                v.append(("score", f"[{j}] {e.key}: accumulated distances d_o,d_s = {e.d_o},{e.d_s} != model {d_o},{d_s}"))
            if not close(e.lpt, lpt, ltol) or not close(e.lpe, lpo, ltol):
                v.append(("score", f"[{j}] {e.key}: transition/emission terms {e.lpt},{e.lpe} != model {lpt},{lpo}"))
        # continue the chain from the reported value so that one mismatch is reported once
        R["lp"], R["lpe"], R["lpne"] = e.logprob, e.logprobe if k else e.logprob, e.logprobne if k else 0.0
        if kind != "simple" and prev is not None:
            R["d_o"], R["d_s"] = e.d_o, e.d_s
        # ---------------- cut-offs (C05)
        slack = 1e-12 if not latlon else 1e-9
        if j == 0 and not d < m.max_dist_init * (1 + slack) + (dtol or 0.0):
            v.append(("cut", f"[{j}] {e.key}: first state is {d} from its observation, max_dist_init is {m.max_dist_init}"))
        if d > m.max_dist * (1 + slack) + (dtol or 0.0):
            v.append(("cut", f"[{j}] {e.key}: state is {d} from its observation, max_dist is {m.max_dist}"))
        if e.logprob / e.length < m.min_logprob_norm - 1e-12:
            v.append(("cut", f"[{j}] {e.key}: normalised log-probability {e.logprob / e.length} below the minimum {m.min_logprob_norm}"))
        pprev, prev = prev, e
    return v, len(lb)


# ================================================================= structure (C03) and walk relation (C04)
def check_structure(m, trace, res, unique):
    v = []
    if not (isinstance(res, tuple) and len(res) == 2):
        return [f"match() returned {res!r}, not a (states, index) pair"]
    states, idx = res
    lb = m.lattice_best
    if states is None:
        return [f"match() returned states None (index {idx})"]
    if len(states) == 0:
        if idx != 0:
            v.append(f"empty state list with index {idx}")
        if lb:
            v.append("empty state list but lattice_best is not empty")
        return v
    if not lb:
        return [f"non-empty state list {states} but lattice_best is empty"]
    keys = [(e.obs, e.obs_ne) for e in lb]
    if keys[0] != (0, 0):
        v.append(f"best path starts at observation/depth {keys[0]}, not at the first observation")
    for a, b in zip(keys, keys[1:]):
        if not (b == (a[0], a[1] + 1) or b == (a[0] + 1, 0)):
            v.append(f"best path jumps from (obs, depth) {a} to {b}")
            break
    em = [i for i, k in keys if k == 0]
    if len(set(em)) != len(em):
        v.append(f"more than one emitting state for an observation: {keys}")
    last_e = max(em) if em else -1
    if idx != last_e:
        v.append(f"returned index {idx} != last observation with an emitting state {last_e}")
    if (idx == len(trace) - 1) != (set(em) == set(range(len(trace)))):
        v.append(f"index {idx} vs trace length {len(trace)}: whole-trace flag inconsistent with the emitting states {em}")
    sk = [e.shortkey for e in lb]
    if unique:
        col = [x for i, x in enumerate(sk) if i == 0 or x != sk[i - 1]]
        if list(states) != col:
            v.append(f"unique=True: returned {states}, path states with repeats collapsed are {col}")
    elif list(states) != sk:
        v.append(f"unique=False: returned {states}, path states are {sk}")
    for e in lb:
        if e.stop:
            v.append(f"stopped entry {e.key} on the best path")
            break
    return v


def legal_move(graph, linked, s, t):
    """The move relation of the statement of C04 on the INPUT graph."""
    if s == t:
        return True
    if is_edge(s) and is_edge(t):
        if t[0] == s[1]:
            return True
        return tuple(t) in {tuple(x) for x in (linked or {}).get(tuple(s), ())}
    if is_edge(s) and not is_edge(t):
        return t[0] == s[1]
    if not is_edge(s) and is_edge(t):
        return t[0] == s[0]
    return t[0] in graph[s[0]][1]


def state_exists(graph, s):
    if not is_edge(s):
        return s[0] in graph
    return s[0] in graph and s[1] in graph and s[0] != s[1] and s[1] in graph[s[0]][1]


def check_walk(m, graph, linked, jumps_used=False):
    v = []
    lb = m.lattice_best or []
    seq = [state_of(e) for e in lb]
    for j, s in enumerate(seq):
        if not state_exists(graph, s):
            v.append(f"[{j}] state {s} is not a node / directed edge of the map")
    for j, (s, t) in enumerate(zip(seq, seq[1:])):
        if not legal_move(graph, linked, s, t):
            v.append(f"[{j}->{j + 1}] {s} -> {t} is not a move the map offers")
    if seq and not linked and not jumps_used and not v:
        try:
            nodes = m.path_pred_onlynodes
        except Exception as exc:  # noqa
            v.append(f"path_pred_onlynodes raised {exc!r} for path {seq}")
            return v
        for a, b in zip(nodes, nodes[1:]):
            if a == b:
                v.append(f"nodes-only view {nodes} has an immediate repeat")
                break
            if not (a in graph and b in graph[a][1]):
                v.append(f"nodes-only view {nodes}: {a} -> {b} is not a directed edge of the map")
                break
    return v
