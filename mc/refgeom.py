"""Reference geometry, written from the definitions (not from the code under test).

Planar: exact rational arithmetic (fractions.Fraction) where inputs are exactly
representable, with square roots taken only at the very end.
Sphere: 3-D unit vectors on the 6 371 000 m sphere.
"""
import math
from fractions import Fraction as Fr

R_EARTH = 6371000.0


# ---------------------------------------------------------------- planar, exact
def F(x):
    return x if isinstance(x, Fr) else Fr(x)


def fpt(p):
    return (F(p[0]), F(p[1]))


def d2(p, q):
    return (p[0] - q[0]) ** 2 + (p[1] - q[1]) ** 2


def proj_exact(p, a, b):
    """Nearest point of segment [a,b] to p, relative position t in [0,1] (0 for a zero-length segment)."""
    p, a, b = fpt(p), fpt(a), fpt(b)
    l2 = d2(a, b)
    if l2 == 0:
        return a, Fr(0), d2(p, a)
    t = ((p[0] - a[0]) * (b[0] - a[0]) + (p[1] - a[1]) * (b[1] - a[1])) / l2
    t = max(Fr(0), min(Fr(1), t))
    q = (a[0] + t * (b[0] - a[0]), a[1] + t * (b[1] - a[1]))
    return q, t, d2(p, q)


def orient(a, b, c):
    return (b[0] - a[0]) * (c[1] - a[1]) - (b[1] - a[1]) * (c[0] - a[0])


def _onseg(a, b, c):
    return min(a[0], b[0]) <= c[0] <= max(a[0], b[0]) and min(a[1], b[1]) <= c[1] <= max(a[1], b[1])


def intersect_exact(a, b, c, d):
    a, b, c, d = fpt(a), fpt(b), fpt(c), fpt(d)
    o1, o2, o3, o4 = orient(a, b, c), orient(a, b, d), orient(c, d, a), orient(c, d, b)
    if ((o1 > 0) != (o2 > 0)) and o1 != 0 and o2 != 0 and ((o3 > 0) != (o4 > 0)) and o3 != 0 and o4 != 0:
        return True
    return (o1 == 0 and _onseg(a, b, c)) or (o2 == 0 and _onseg(a, b, d)) or \
           (o3 == 0 and _onseg(c, d, a)) or (o4 == 0 and _onseg(c, d, b))


def segseg_d2_exact(a, b, c, d):
    """Squared minimum distance between segments [a,b] and [c,d] (exact)."""
    if intersect_exact(a, b, c, d):
        return Fr(0)
    return min(proj_exact(a, c, d)[2], proj_exact(b, c, d)[2], proj_exact(c, a, b)[2], proj_exact(d, a, b)[2])


def fsqrt(x):
    """sqrt of a non-negative Fraction as float, correctly rounded to within 1 ulp."""
    if x == 0:
        return 0.0
    return math.sqrt(x.numerator / x.denominator) if x.denominator.bit_length() < 900 and x.numerator.bit_length() < 900 \
        else math.sqrt(float(x))


# ---------------------------------------------------------------- planar, floats
def dist(p, q):
    return math.hypot(p[0] - q[0], p[1] - q[1])


def proj(p, a, b):
    l2 = (a[0] - b[0]) ** 2 + (a[1] - b[1]) ** 2
    if l2 == 0:
        return (a[0], a[1]), 0.0
    t = ((p[0] - a[0]) * (b[0] - a[0]) + (p[1] - a[1]) * (b[1] - a[1])) / l2
    t = max(0.0, min(1.0, t))
    return (a[0] + t * (b[0] - a[0]), a[1] + t * (b[1] - a[1])), t


def pt_seg(p, a, b):
    q, t = proj(p, a, b)
    return dist(p, q), q, t


def segseg(a, b, c, d):
    """Minimum distance between two segments, float inputs, exact predicate via Fractions."""
    return fsqrt(segseg_d2_exact(a, b, c, d))


# ---------------------------------------------------------------- sphere
def ll2v(lat, lon):
    la, lo = math.radians(lat), math.radians(lon)
    c = math.cos(la)
    return (c * math.cos(lo), c * math.sin(lo), math.sin(la))


def v2ll(v):
    x, y, z = v
    return (math.degrees(math.atan2(z, math.hypot(x, y))), math.degrees(math.atan2(y, x)))


def vdot(u, v):
    return u[0] * v[0] + u[1] * v[1] + u[2] * v[2]


def vcross(u, v):
    return (u[1] * v[2] - u[2] * v[1], u[2] * v[0] - u[0] * v[2], u[0] * v[1] - u[1] * v[0])


def vnorm(u):
    return math.sqrt(vdot(u, u))


def vscale(u, s):
    return (u[0] * s, u[1] * s, u[2] * s)


def vadd(u, v):
    return (u[0] + v[0], u[1] + v[1], u[2] + v[2])


def vunit(u):
    n = vnorm(u)
    return (u[0] / n, u[1] / n, u[2] / n)


def vangle(u, v):
    return math.atan2(vnorm(vcross(u, v)), vdot(u, v))


def sph_dist(p, q):
    return R_EARTH * vangle(ll2v(p[0], p[1]), ll2v(q[0], q[1]))


def sph_dest(p, bearing_deg, dist_m):
    """Destination from p (lat, lon degrees) along initial bearing (degrees, clockwise from north)."""
    u = ll2v(p[0], p[1])
    la, lo = math.radians(p[0]), math.radians(p[1])
    north = (-math.sin(la) * math.cos(lo), -math.sin(la) * math.sin(lo), math.cos(la))
    east = (-math.sin(lo), math.cos(lo), 0.0)
    b = math.radians(bearing_deg)
    t = vadd(vscale(north, math.cos(b)), vscale(east, math.sin(b)))
    a = dist_m / R_EARTH
    return v2ll(vadd(vscale(u, math.cos(a)), vscale(t, math.sin(a))))


def sph_bearing(p, q):
    u = ll2v(p[0], p[1])
    v = ll2v(q[0], q[1])
    la, lo = math.radians(p[0]), math.radians(p[1])
    north = (-math.sin(la) * math.cos(lo), -math.sin(la) * math.sin(lo), math.cos(la))
    east = (-math.sin(lo), math.cos(lo), 0.0)
    return math.degrees(math.atan2(vdot(v, east), vdot(v, north)))


def sph_pt_seg(p, a, b):
    """Distance from p to the great-circle segment [a,b]; nearest point; relative position in [0,1]."""
    P, A, B = ll2v(p[0], p[1]), ll2v(a[0], a[1]), ll2v(b[0], b[1])
    ab = vangle(A, B)
    if ab == 0.0:
        return R_EARTH * vangle(P, A), (a[0], a[1]), 0.0
    n = vunit(vcross(A, B))
    # projection of P on the plane of the great circle
    q = vadd(P, vscale(n, -vdot(P, n)))
    if vnorm(q) < 1e-15:
        # p is a pole of the circle: every point equally far; take a
        return R_EARTH * vangle(P, A), (a[0], a[1]), 0.0
    Q = vunit(q)
    # signed along-track angle from A towards B
    along = math.atan2(vdot(vcross(A, Q), n), vdot(A, Q))
    t = along / ab
    if t <= 0.0:
        return R_EARTH * vangle(P, A), (a[0], a[1]), 0.0
    if t >= 1.0:
        return R_EARTH * vangle(P, B), (b[0], b[1]), 1.0
    return R_EARTH * vangle(P, Q), v2ll(Q), t


def sph_segseg(a, b, c, d, steps=0):
    """Minimum distance between two short great-circle segments: 0 if they cross, else the minimum over the
    four end-point-to-segment distances (exact for geodesic segments shorter than a quarter circle)."""
    A, B, C, D = (ll2v(*a[:2]), ll2v(*b[:2]), ll2v(*c[:2]), ll2v(*d[:2]))
    n1, n2 = vcross(A, B), vcross(C, D)
    if vnorm(n1) > 0 and vnorm(n2) > 0:
        x = vcross(n1, n2)
        if vnorm(x) > 1e-18:
            x = vunit(x)
            for X in (x, vscale(x, -1.0)):
                def inside(U, V, n, X=X):
                    return vdot(vcross(U, X), n) >= 0 and vdot(vcross(X, V), n) >= 0
                if inside(A, B, n1) and inside(C, D, n2):
                    return 0.0
    return min(sph_pt_seg(a, c, d)[0], sph_pt_seg(b, c, d)[0], sph_pt_seg(c, a, b)[0], sph_pt_seg(d, a, b)[0])
