"""Map construction helpers and the reference scan for spatial queries."""
import math
import os
import shutil

from mc import bind
from mc import refgeom as rg
from leuvenmapmatching.map.inmem import InMemMap
from leuvenmapmatching.map.sqlite import SqliteMap

_scratch = {"dir": None, "n": 0, "pid": None}


def scratch():
    if _scratch["dir"] is None or _scratch["pid"] != os.getpid():
        _scratch["dir"] = bind.scratch_dir(f"maps-{os.getpid()}")
        _scratch["pid"] = os.getpid()
        import atexit
        atexit.register(cleanup)
    return _scratch["dir"]


def cleanup():
    if _scratch["dir"] and _scratch["pid"] == os.getpid():
        shutil.rmtree(_scratch["dir"], ignore_errors=True)
        _scratch["dir"] = None


def inmem(graph, use_latlon=False, linked_edges=None, name="m", **kw):
    """graph: {label: (pos, [neighbour labels])}; a private copy is handed to the map."""
    return InMemMap(name, use_latlon=use_latlon, graph={k: (tuple(v[0]), list(v[1])) for k, v in graph.items()},
                    linked_edges=linked_edges, **kw)


def sqlite(graph, use_latlon=False, name=None, bulk=True):
    d = scratch()
    if name is None:
        name = "s"   # one file per worker process, re-created (tables dropped) for every map
    sm = SqliteMap(name, use_latlon=use_latlon, dir=d)
    nodes = [(k, tuple(v[0])) for k, v in graph.items()]
    edges = [(a, b) for a, v in graph.items() for b in v[1] if a != b]
    if bulk == "deferred":
        # deferred indexing: rows are inserted without index maintenance and without commit, the indexes are rebuilt at the end
        for k, p in nodes:
            sm.add_node(k, p, no_index=True, no_commit=True)
        for a, b in edges:
            sm.add_edge(a, b, no_index=True, no_commit=True)
        sm.reindex_nodes()
        sm.reindex_edges()
    elif bulk:
        sm.add_nodes(nodes)
        sm.add_edges(edges)
    else:
        # tile-wise import: every node is offered with ignore_doubles=True, and every label is offered a SECOND time with
        # other coordinates (the overlapping border of the next tile); "when trying to add the same node, ignore it" -
        # the content of the map must stay that of the first offer
        for k, p in nodes:
            sm.add_node(k, p, ignore_doubles=True)
        for i, (k, p) in enumerate(nodes):
            sm.add_node(k, (p[0] + (0.75 + i) * (1.0 if not use_latlon else 1e-3), p[1] - (1.5 + i) * (1.0 if not use_latlon else 1e-3)), ignore_doubles=True)
        for a, b in edges:
            sm.add_edge(a, b)
        for a, b in edges[:1]:
            sm.add_edge(a, b)      # (edges are INSERT OR IGNORE by construction)
    return sm


def close(m):
    db = getattr(m, "db", None)
    if db is not None:
        try:
            db.close()
        except Exception:
            pass


def graph_edges(graph):
    return [(a, b) for a, v in graph.items() for b in v[1] if a != b]


# ------------------------------------------------------------------ reference scan
class Metric:
    def __init__(self, latlon):
        self.latlon = latlon

    def d(self, p, q):
        return rg.sph_dist(p, q) if self.latlon else rg.dist(p, q)

    def p2s(self, p, a, b):
        return rg.sph_pt_seg(p, a, b) if self.latlon else rg.pt_seg(p, a, b)

    def in_box(self, c, r, p, tol):
        """-1 outside, +1 inside, 0 within tol of a side: the axis-aligned box that encloses the disc (c, r)."""
        if self.latlon:
            dlat = math.degrees(r / rg.R_EARTH)
            s = math.sin(r / rg.R_EARTH) / math.cos(math.radians(c[0]))
            dlon = 180.0 if s >= 1 else math.degrees(math.asin(s))
            tl = math.degrees(tol / rg.R_EARTH)
            tlo = tl / max(0.1, math.cos(math.radians(c[0])))
        else:
            dlat = dlon = r
            tl = tlo = tol
            # exact case: when the four box sides c +/- r are computed without rounding (dyadic inputs), the library's closed
            # comparison `c - r <= p <= c + r` is decided exactly - a node ON a side is inside, nothing is "either way"
            from fractions import Fraction as _F
            if r != float('inf') and all(_F(a) + _F(b) == _F(a + b) for a, b in ((c[0], r), (c[0], -r), (c[1], r), (c[1], -r))):
                inside = (c[0] - r <= p[0] <= c[0] + r) and (c[1] - r <= p[1] <= c[1] + r)
                return 1 if inside else -1
        oy, ox = abs(p[0] - c[0]) - dlat, abs(p[1] - c[1]) - dlon
        if oy > tl or ox > tlo:
            return -1
        if oy < -tl and ox < -tlo:
            return 1
        return 0
