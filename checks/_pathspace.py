"""Shared enumeration for the path-level checks C02-C05: graphs x traces x configurations (one-shot runs) and
operation histories (widen / extend) on one matcher; each check supplies its configuration list and its judge."""
import itertools

from mc import alphabet as al
from mc import maps
from mc import mspace as ms
from mc import histories as hs


def cfg(fam="S", ne=False, avoid=False, cut="none", width=None, **kw):
    c = {"fam": fam, "ne": ne, "avoid": avoid, "width": width}
    c.update(ms.CUTS[cut])
    c.update(kw)
    return c


def trace_set(pos, T, n_obs=4, with_far=False):
    obs = list(al.OBS[pos][:n_obs])
    if with_far:
        obs = obs + [al.FAR[pos]]
    return list(al.traces(obs, 1, T))


def special_traces(pos, graph):
    """Traces along a 4-5 node graph that force non-emitting bridges: start near the first node, end near a later one."""
    P = [v[0] for v in graph.values()]
    near = [(p[0] + 0.13, p[1] - 0.11) for p in P]
    out = []
    n = len(P)
    for a in range(n):
        for b in range(n):
            out.append([near[a], near[b]])
    sel = list(range(n)) if n <= 5 else [0, 1, n // 2, n - 2, n - 1]      # larger graphs: both ends and the middle
    for a, b, c in itertools.product(sel, repeat=3):
        if abs(a - b) >= 2 or abs(b - c) >= 2:
            out.append([near[a], near[b], near[c]])
    return ms.axis_traces(graph) + out


def span_idx(n, four=False):
    """Index tuples (into the node list of a named graph with last index n) for traces that span the graph."""
    h = n // 2
    out = [(0, h, n), (0, n, 1), (1, n - 1, 0), (n, h, 0), (0, n), (n, 0), (h, 0, n - 1)]
    if four:
        out += [(0, h, n - 1, n), (n, n - 1, 1, 0), (0, n, 0, n), (h, 0, n, h)]
    return out


def cases(tier, n4_level=None, hist_T=3, with_hist=True, extra=None):
    for gs in ms.graph_slice("n3"):
        yield {"kind": "run", "gs": list(gs), "slice": "n3", "T": 3 if tier == "quick" else 4}
    for name, pos, g in ms.special_graphs():
        yield {"kind": "run", "gs": ms.explicit(g), "pos": pos, "slice": "special", "name": name}
    lvl = n4_level or ("n4e3" if tier == "quick" else "n4e4")
    for gs in ms.graph_slice(lvl):
        if gs[1] == 4:
            yield {"kind": "run", "gs": list(gs), "slice": "n4", "T": 2 if tier == "quick" else 3}
    if with_hist:
        for gs in ms.graph_slice("n3" if tier == "quick" else "n4e3"):
            if al.nedges(gs[2]) >= (3 if tier == "quick" else 2) and (tier == "thorough" or gs[0] == "GENERIC"):
                yield {"kind": "hist", "gs": list(gs), "slice": "hist", "T": hist_T}
        for name, pos, g in ms.special_graphs():
            yield {"kind": "hist", "gs": ms.explicit(g), "pos": pos, "slice": "hist-special", "name": name, "T": hist_T}


def graph_of(case, labels="int", selfnbr=False):
    gs = case["gs"]
    if isinstance(gs, dict):
        return ms.build_graph(gs)
    return ms.build_graph(tuple(gs), labels=labels, selfnbr=selfnbr)


def pos_of(case):
    return case.get("pos") or (case["gs"][0] if not isinstance(case["gs"], dict) else "GENERIC")


def traces_of(case, graph):
    if "trace" in case:
        return [[tuple(p) for p in case["trace"]]]
    pos = pos_of(case)
    if case["slice"] == "special":
        return special_traces(pos, graph)
    if case["slice"] == "hist-special":
        P = [v[0] for v in graph.values()]
        near = [(p[0] + 0.13, p[1] - 0.11) for p in P]
        n = len(P) - 1
        idx = [(0, n // 2, n), (0, n, 1), (1, n - 1, 0), (0, 1, n), (n, n // 2, 0), (n // 2, 0, n - 1)]
        four = [[near[0], al.FAR[pos], near[n // 2], near[n]], [near[0], near[n // 2], al.FAR[pos], near[n]],
                [near[0], near[n // 2], near[n - 1], near[n]], [near[1], near[n // 2], near[n - 2], near[n - 1], near[n]]]
        return [t for t in ms.axis_traces(graph) if len(t) == 3] + [[near[min(i, n)] for i in t] for t in idx] + four
    if case["slice"] == "hist":
        o = al.OBS[pos]
        four = [[o[0], al.FAR[pos], o[1], o[2]], [o[0], o[1], al.FAR[pos], o[2]]]
        return [t for t in trace_set(pos, case["T"], n_obs=3, with_far=(case.get("tier") == "thorough")) if len(t) == case["T"]] + four
    return trace_set(pos, case["T"], n_obs=case.get("n_obs", 4), with_far=False)


def run(case, cfgs_for, judge, res, hist_cfgs=None, hist_depth=3, uniques=(False,), backend="inmem", linked=None, judge_hist=None):
    """cfgs_for(slice) -> list of cfg dicts;  judge(m, result, graph, trace, cfg, unique, ctx) -> list of
    (finding_id or None, message).  Fills res in place."""
    graph = graph_of(case)
    pos = pos_of(case)
    egraph = ms.explicit(graph)
    outs = set()
    mp = maps.inmem(graph, linked_edges=linked) if backend == "inmem" else maps.sqlite(graph)
    try:
        traces = traces_of(case, graph)
        if case["kind"] == "run":
            cfgs = [case["cfg"]] if "cfg" in case else cfgs_for(case["slice"])
            uq = [case["unique"]] if "unique" in case else uniques
            for trace in traces:
                for c in cfgs:
                    for unique in uq:
                        m = ms.make_matcher(mp, c)
                        try:
                            r = m.match(list(trace), unique=unique)
                        except Exception as exc:  # noqa
                            r = exc
                        res["n"] += 1
                        ctx = {"expand": False}
                        mini = {"kind": "run", "gs": egraph, "pos": pos, "slice": case["slice"], "trace": trace, "cfg": c, "unique": unique}
                        _absorb(res, outs, judge(m, r, graph, trace, c, unique, ctx), m, r, mini, f"{al.describe_graph(graph)} trace {trace} cfg {c} unique={unique}")
        else:
            cfgs = [case["cfg"]] if "cfg" in case else hist_cfgs
            for trace in traces:
                for c in cfgs:
                    hists = [case["hist"]] if "hist" in case else hs.all_histories(len(trace), hist_depth, c.get("width"), widths=(2, 3))
                    for hist in hists:
                        if len(hist) < 2 and "hist" not in case:
                            continue
                        m = ms.make_matcher(mp, c)
                        for i, op in enumerate(hist):
                            r = hs.apply_op(m, trace, op)
                            res["n"] += 1
                            if i < len(hist) - 1 and "hist" not in case:
                                continue      # prefixes are histories of their own in the enumeration
                            cur_trace = m.path if m.path is not None else trace
                            ctx = {"expand": True, "hist": hist, "op": op}
                            mini = {"kind": "hist", "gs": egraph, "pos": pos, "slice": case["slice"], "trace": trace, "cfg": c, "hist": hist}
                            jf = judge_hist or judge
                            _absorb(res, outs, jf(m, r, graph, cur_trace, c, False, ctx), m, r, mini,
                                    f"{al.describe_graph(graph)} trace {trace} cfg {c} history {hist}")
    finally:
        maps.close(mp)
    res["out"] = sorted(outs, key=repr)[:2000]
    return res


def _absorb(res, outs, verdicts, m, r, mini, where):
    lb = m.lattice_best or []
    res["st"] += len(lb)
    res["tr"] += max(0, len(lb) - 1)
    res["tv"] += 1 if lb else 0
    if not isinstance(r, Exception) and isinstance(r, tuple) and len(r) == 2:
        outs.add((r[1], len(lb), tuple((e.obs_ne > 0) for e in lb)))
    seen = set()
    for fid, msg in verdicts:
        if fid == "NT":
            res["nt"] += 1
            continue
        if (fid, msg[:40]) in seen:
            continue
        seen.add((fid, msg[:40]))
        if fid is None:
            if len(res["v"]) < 30:
                res["v"].append({"msg": f"{where}: {msg}", "case": mini})
        else:
            res["k"].append({"id": fid, "msg": f"{where}: {msg}", "case": mini})
