"""C08 — incremental matching equals one-shot matching (form B, differential)."""
import itertools

from mc import bind  # noqa: F401
from mc import alphabet as al
from mc import maps
from mc import mspace as ms
from checks import _pathspace as ps

ID = "C08"
TITLE = "Incremental matching equals one-shot matching"
MANIFEST = {
    "text": "For every graph on 2-3 placed nodes (two alphabets) and 26 named 4-12 node graphs, every trace of length 2-4 over an "
            "alphabet with an on-road point, an off-road point and a far outlier, and 15 configurations (3 families x non-emitting "
            "on/off x cut-offs that stop early x widths {None,1,2}): EVERY composition of the trace, i.e. all 2^(T-1)-1 ways of cutting "
            "it into successive extensions, is executed on one matcher as match(prefix), match(longer prefix, expand=True), ... and the "
            "canonical result after the last extension (index, best probability, states, best-path keys and per-state probabilities) "
            "must equal that of match(trace) on a fresh matcher. Third session: non_emitting_states_maxnb = 1 configurations; a second "
            "session on the SAME matcher object (after an incremental match of the trace, the reversed trace is matched incrementally and "
            "must equal its one-shot match on a fresh matcher).",
    "note": "Trusted: the comparison. Strict equality including the path: both runs generate candidates in the same order, so the "
            "statement's 'same best path' is taken literally. Thorough tier: traces of length 5 on the named graphs, 4-node family.",
    "technique": "explicit enumeration of all operation histories (compositions of the trace) on the real object, differential oracle against the one-shot run",
}
BUDGET = {"quick": 900, "thorough": 3000}
RULE = ("states = distinct (input, configuration, composition) histories executed, transitions = match calls, traces validated = "
        "histories compared with the one-shot result; non-trivial = a cut falls inside a non-emitting bridge of the best path, or "
        "the match stops early, or width pruning is on; outcomes = canonical one-shot results.")
ASSUMPTIONS = ["probabilities compared to 1e-12 relative"]

CFGS = [dict(fam=f, ne=ne, avoid=True, width=None) for f in ms.FAMS for ne in (False, True)] + \
       [dict(fam=f, ne=ne, avoid=True, width=1, min_prob_norm=0.3) for f in ms.FAMS for ne in (False, True)] + \
       [dict(fam=f, ne=True, avoid=True, width=2, max_dist=1.5) for f in ms.FAMS] + \
       [dict(fam=f, ne=True, avoid=True, width=w, maxnb=1) for f, w in (("S", None), ("D", 1))]


def space(tier):
    return {"configurations": CFGS, "trace_lengths": [2, 3, 4] if tier == "quick" else [2, 3, 4, 5], "compositions": "all 2^(T-1)-1"}


def cases(tier):
    for gs in ms.graph_slice("n3" if tier == "quick" else "n4e3"):
        yield {"gs": list(gs), "slice": "n3", "tier": tier}
    for name, pos, g in ms.special_graphs():
        yield {"gs": ms.explicit(g), "pos": pos, "slice": "special", "name": name, "tier": tier}


def compositions(T):
    for r in range(1, T):
        for cuts in itertools.combinations(range(1, T), r):
            yield list(cuts)


def trace_list(case, graph):
    pos = ps.pos_of(case)
    if "trace" in case:
        return [[tuple(p) for p in case["trace"]]]
    if case["slice"] == "special":
        P = [v[0] for v in graph.values()]
        near = [(p[0] + 0.13, p[1] - 0.11) for p in P]
        n = len(P) - 1
        idx = [t for t in ps.span_idx(n, four=True) if len(t) >= 3]
        if case.get("tier") == "thorough":
            idx += [(0, 1, 2, 3, n), (n, 2, 0, 2, n), (0, n, 1, 3, 2)]
        out = [[near[min(i, n)] for i in t] for t in idx]
        out.append([near[0], al.FAR[pos], near[n]])
        out.append([near[0], al.FAR[pos], near[n // 2], near[n]])
        out.append([near[0], near[n // 2], al.FAR[pos], near[n]])
        out = ms.axis_traces(graph) + out
        return out
    obs = [al.OBS[pos][1], al.OBS[pos][2], al.FAR[pos]]
    out = [list(t) for T in (2, 3) for t in itertools.product(obs, repeat=T)]
    out += [[al.OBS[pos][0]] + list(t) for t in itertools.product(obs[:2], repeat=3)]
    out += [[obs[0], al.FAR[pos], obs[1], obs[0]], [obs[0], obs[1], al.FAR[pos], obs[0]], [al.FAR[pos], obs[0], obs[1], obs[0]]]
    if case.get("tier") == "thorough":
        out += [list(t) for t in itertools.product(obs, repeat=4)]
    return out


def run_case(case):
    res = dict(n=0, st=0, tr=0, tv=0, nt=0, out=[], v=[], k=[])
    outs = set()
    graph = ps.graph_of(case)
    pos = ps.pos_of(case)
    egraph = ms.explicit(graph)
    mp = maps.inmem(graph)
    cfgs = [case["cfg"]] if "cfg" in case else CFGS
    for trace in trace_list(case, graph):
        T = len(trace)
        for c in cfgs:
            m = ms.make_matcher(mp, c)
            try:
                ref = ms.canon(m, m.match(list(trace)))
            except Exception as exc:  # noqa
                ref = ("EXC", repr(exc))
            res["n"] += 1
            res["tr"] += 1
            lb = m.lattice_best or []
            ne_gaps = {e.obs for e in lb if e.obs_ne}
            early = ref[0] != "EXC" and ref[0] != T - 1
            outs.add(ref[:2])
            comps = [case["cuts"]] if "cuts" in case else compositions(T)
            for cuts in comps:
                m2 = ms.make_matcher(mp, c)
                got = None
                try:
                    m2.match(list(trace[:cuts[0]]))
                    for cpt in list(cuts[1:]) + [T]:
                        r = m2.match(list(trace[:cpt]), expand=True)
                        res["n"] += 1
                    got = ms.canon(m2, r)
                except Exception as exc:  # noqa
                    got = ("EXC", repr(exc))
                res["n"] += 1
                res["tr"] += len(cuts) + 1
                res["st"] += 1
                res["tv"] += 1
                if early or c.get("width") or any((cp - 1) in ne_gaps for cp in cuts):
                    res["nt"] += 1
                same = got == ref
                if not same and got[0] != "EXC" and ref[0] != "EXC" and got[0] == ref[0] and got[2] == ref[2] and \
                        [k for k, _ in got[3]] == [k for k, _ in ref[3]] and \
                        all(abs(a[1] - b[1]) <= 1e-12 * max(1.0, abs(b[1])) for a, b in zip(got[3], ref[3])):
                    same = True
                if not same:
                    what = "index" if got[0] != ref[0] else "probability" if got[1] != ref[1] else "path"
                    res["v"].append({"msg": f"{al.describe_graph(graph)} trace {trace} cfg {c}: cutting at {cuts} and extending gives a different "
                                            f"{what}: incremental {got[:3]} vs one-shot {ref[:3]}",
                                     "case": {"gs": egraph, "pos": pos, "slice": case["slice"], "trace": trace, "cfg": c, "cuts": cuts}})
            # a second session on the SAME matcher object: after an incremental match of `trace`, the reversed trace is
            # matched incrementally (plain match of its first observation, then one extension) and must equal its one-shot
            # match on a fresh matcher
            if T >= 2 and "cuts" not in case or case.get("second_session"):
                back = list(trace[::-1])
                mf = ms.make_matcher(mp, c)
                try:
                    ref2 = ms.canon(mf, mf.match(list(back)))
                except Exception as exc:  # noqa
                    ref2 = ("EXC", repr(exc))
                mu = ms.make_matcher(mp, c)
                try:
                    mu.match(list(trace[:1]))
                    mu.match(list(trace), expand=True)
                    mu.match(list(back[:1]))
                    got2 = ms.canon(mu, mu.match(list(back), expand=True))
                except Exception as exc:  # noqa
                    got2 = ("EXC", repr(exc))
                res["n"] += 5
                res["tr"] += 5
                res["tv"] += 1
                same2 = got2 == ref2 or (got2[0] != "EXC" and ref2[0] != "EXC" and got2[0] == ref2[0] and got2[2] == ref2[2] and
                                         [k for k, _ in got2[3]] == [k for k, _ in ref2[3]] and
                                         all(abs(a[1] - b[1]) <= 1e-12 * max(1.0, abs(b[1])) for a, b in zip(got2[3], ref2[3])))
                if not same2:
                    res["v"].append({"msg": f"{al.describe_graph(graph)} trace {trace} cfg {c}: second session on the same matcher (incremental match of the "
                                            f"reversed trace after an incremental match of the trace) gives {got2[:3]}, one-shot on a fresh matcher {ref2[:3]}",
                                     "case": {"gs": egraph, "pos": pos, "slice": case["slice"], "trace": trace, "cfg": c, "cuts": [1], "second_session": True}})
    res["out"] = sorted(outs, key=repr)[:1000]
    res["v"] = res["v"][:30]
    return res


def describe(case):
    return {k: case[k] for k in case if k != "tier"}
