"""C09 — the lattice stays well-formed under any sequence of operations (form B: BFS over histories)."""
import collections
import math

from mc import bind  # noqa: F401
from mc import alphabet as al
from mc import maps
from mc import mspace as ms
from mc import histories as hs
from mc.engine import fp
from checks import _pathspace as ps

ID = "C09"
TITLE = "The lattice stays well-formed under any sequence of operations"
MANIFEST = {
    "text": "Breadth-first search over operation histories of depth <= 3 (thorough 4) on one live matcher from the alphabet {M(k): fresh "
            "match of the first k observations (first operation, and later for a SHORTER prefix; thorough: anywhere), X(k): match(first k, expand=True) for k >= current "
            "length, W(w): increase_max_lattice_width for w above the current width, C: continue_with_distance() with default and "
            "explicit radius}, on 57 graphs with 3 nodes, 26 named 4-12 node graphs, four traces (two without, two with an "
            "outlier so that early stops and the jump logic are reachable), 3 families x non-emitting on/off x initial width {None,1} x "
            "2 cut-off sets. States are de-duplicated on a canonical lattice snapshot (keys, rounded probabilities, delayed, stop, "
            "predecessor keys, round, width, trace length, early-stop index). In EVERY reached state, whether or not the call raised, "
            "every lattice entry is filed under its own key in the column/layer it claims, has (except in column 0 / layer 0) a best "
            "predecessor that IS an entry of the directly preceding layer (or column), is not more probable than it, has length = "
            "observation index + 1, a log-probability <= 0 that is not NaN, and is not stopped only if its predecessor is not stopped.",
    "note": "Trusted: the invariant predicates in this file; snapshots keep every field an invariant reads, so merging states is sound. "
            "'Live' is read as 'not stopped' (see DESIGN.md C09 for why the stronger reading would be a false alarm). An exception "
            "raised by a call is not a C09 violation (C17 covers totality of match), the state after it is still checked.",
    "technique": "explicit-state BFS over operation histories of the real object with canonical-state de-duplication and invariants on every state",
}
MANIFEST["text"] += " " + (
    "Added after the seeding waves: where neither a lattice width nor non-emitting states are configured, 'live' is additionally read as 'scheduled for the current round' (nothing can legitimately re-postpone a predecessor there); graphs with a connectivity gap (two islands, two feeder roads) so that continue_with_distance produces live jump entries; width-2 configurations; four configurations with the package logger at DEBUG (stopped entries exist only there); non_emitting_states_maxnb = 1; fixed histories beyond the depth bound: jump, FRESH match of a prefix on the same matcher, jump again (and extend).")
BUDGET = {"quick": 900, "thorough": 3000}
RULE = ("cases = (graph, trace); below each, one BFS per configuration. states = distinct canonical lattice snapshots reached, "
        "transitions = public operations executed (including replays to rebuild a state), traces validated = states on which all "
        "invariants were evaluated; non-trivial = the state was reached by at least one widen/extend/continue operation and its "
        "lattice has a postponed, stopped or non-emitting entry; outcomes = distinct snapshots.")
ASSUMPTIONS = ["tolerance 1e-9 on 'not more probable than the predecessor' and on 'log-probability <= 0'"]

CFGS = [dict(fam=f, ne=ne, avoid=True, width=w, **cut) for f in ms.FAMS for ne in (False, True) for w in (None, 1)
        for cut in ({"max_dist": 1.5}, {"min_prob_norm": 0.3, "max_dist": 2.5})] + \
       [dict(fam=f, ne=True, avoid=True, width=2, max_dist=2.5, obs_noise_ne=2.0) for f in ms.FAMS] + \
       [dict(fam=f, ne=True, avoid=True, width=2, max_dist=5.0, max_dist_init=1.0, obs_noise_ne=2.0) for f in ("S", "D")] + \
       [dict(fam=f, ne=True, avoid=True, width=w, max_dist=2.5, maxnb=1) for f, w in (("S", None), ("D", 1), ("SN", 2))] + \
       [dict(fam=f, ne=True, avoid=True, width=w, debug=True, **cut) for f, w, cut in (("S", 1, {"max_dist": 1.5}), ("D", None, {"min_prob_norm": 0.3, "max_dist": 2.5}),
                                                                                  ("SN", 1, {"max_dist": 1.5}), ("D", 2, {"max_dist": 1.0}))]
# (the last group runs with the package logger at DEBUG: only then are candidates that fail a cut-off KEPT as stopped entries, so only
#  there can "is live only if its predecessor is live" be violated at all)


def space(tier):
    return {"depth": 3 if tier == "quick" else 4, "configurations": len(CFGS), "alphabet": ["M(k)", "X(k)", "W(w)", "C()", "C(max_dist=1.0)"],
            "widths": [2, 3]}


def cases(tier):
    for gs in ms.graph_slice("n3" if tier == "quick" else "n4e3"):
        if gs[1] >= 3 and al.nedges(gs[2]) >= 2 and (gs[0] == "GENERIC" or tier == "thorough"):
            for ti in range(4):
                yield {"gs": list(gs), "ti": ti, "tier": tier}
    for name, pos, g in ms.special_graphs():
        for ti in range(4):
            yield {"gs": ms.explicit(g), "pos": pos, "name": name, "ti": ti, "tier": tier}
        for xt in ms.axis_traces(g):
            yield {"gs": ms.explicit(g), "pos": pos, "name": name, "trace": xt, "tier": tier}


def invariants(m, tol=1e-9):
    v = []
    lat = m.lattice
    if lat is None:
        return v
    where = {}
    for i, col in lat.items():
        if col.obs_idx != i:
            v.append(f"column filed under {i} claims observation {col.obs_idx}")
        for k, layer in enumerate(col.o):
            for key, e in layer.items():
                where[id(e)] = (i, k)
    for i, col in lat.items():
        for k, layer in enumerate(col.o):
            for key, e in layer.items():
                if e.key != key:
                    v.append(f"entry {e.key} is filed under key {key}")
                if e.obs != i or e.obs_ne != k:
                    v.append(f"entry {key} claims (obs {e.obs}, depth {e.obs_ne}) but is filed in column {i}, layer {k}")
                if not (e.logprob <= tol) or math.isnan(e.logprob):
                    v.append(f"entry {key} has log-probability {e.logprob}")
                if e.length != i + 1:
                    v.append(f"entry {key} has length {e.length}, its chain has {i + 1} emitting states")
                if i == 0 and k == 0:
                    if len(e.prev) != 0:
                        v.append(f"first-column entry {key} has a predecessor")
                    continue
                if len(e.prev) == 0:
                    v.append(f"entry {key} has no predecessor")
                    continue
                for p in e.prev:
                    if id(p) not in where:
                        v.append(f"predecessor {p.key} of {key} is not an entry of the lattice")
                        continue
                    pi, pk = where[id(p)]
                    if k > 0:
                        if (pi, pk) != (i, k - 1):
                            v.append(f"predecessor of {key} sits in column {pi}, layer {pk}, not in the directly preceding layer")
                    elif pi != i - 1:
                        v.append(f"predecessor of {key} sits in column {pi}, not in the preceding column")
                    if e.logprob > p.logprob + tol:
                        v.append(f"entry {key} ({e.logprob}) is more probable than its predecessor {p.key} ({p.logprob})")
                    if not e.stop and p.stop:
                        v.append(f"entry {key} is live but its predecessor {p.key} is stopped")
                    # Without a lattice width (no pruning) and without non-emitting states (no entry with children is replaced
                    # by a jump candidate) nothing can legitimately re-postpone a predecessor, so there the stronger
                    # reading of "live" (not stopped AND scheduled for the current round or earlier) must hold as well.
                    # (With a width it does not: a parent expanded in round 0 may be postponed again by pruning in round 1.)
                    if m.max_lattice_width is None and not m.non_emitting_states and not e.stop and e.delayed <= m.expand_now and not p.stop and p.delayed > m.expand_now:
                        v.append(f"no lattice width and no non-emitting states, entry {key} is active (delayed={e.delayed}, round {m.expand_now}) but its "
                                 f"predecessor {p.key} is postponed (delayed={p.delayed})")
    return v


def the_trace(case, graph):
    pos = ps.pos_of(case)
    if "trace" in case:
        return [tuple(p) for p in case["trace"]]
    if isinstance(case["gs"], dict):
        P = [v[0] for v in graph.values()]
        near = [(p[0] + 0.13, p[1] - 0.11) for p in P]
        n = len(P) - 1
        T = 3 if case.get("tier") != "thorough" else 4
        return [[near[0], near[min(2, n)], near[n], near[0]][:T], [near[0], al.FAR[pos], near[n], near[0]][:T],
                [near[n], near[0], al.FAR[pos], near[1]][:T], [near[0], near[n // 2], near[n - 1], near[n]][:T]][case["ti"]]
    o = al.OBS[pos]
    T = 3 if case.get("tier") != "thorough" else 4
    return [[o[0], o[1], o[2], o[3]][:T], [o[1], al.FAR[pos], o[2], o[0]][:T], [o[2], o[0], al.FAR[pos], o[1]][:T], [o[1], o[3], o[0], o[2]][:T]][case["ti"]]


def run_case(case):
    res = dict(n=0, st=0, tr=0, tv=0, nt=0, out=[], v=[], k=[])
    graph = ps.graph_of(case)
    pos = ps.pos_of(case)
    egraph = ms.explicit(graph)
    mp = maps.inmem(graph)
    trace = the_trace(case, graph)
    T = len(trace)
    depth = case.get("depth") or (3 if case.get("tier") != "thorough" else 4)
    cfgs = [case["cfg"]] if "cfg" in case else CFGS
    outs = set()
    for c in cfgs:
        seen = set()
        ms.set_debug(bool(c.get("debug")))
        if "hist" in case:
            frontier = collections.deque([(case["hist"], None)])
        else:
            frontier = collections.deque([([["M", k]], {"len": k, "width": c.get("width")}) for k in range(1, T + 1)])
            # four fixed histories beyond the depth bound: jump, then a FRESH match of a prefix on the same matcher, then jump
            # again (whatever the first jump remembered must not leak into the second lattice)
            for k in range(2, T + 1):
                frontier.append(([["M", T], ["C", None], ["M", k], ["C", None]], None))
                frontier.append(([["M", T], ["C", None], ["M", k], ["C", None], ["X", T]], None))
        while frontier:
            hist, state = frontier.popleft()
            m = ms.make_matcher(mp, c)
            raised = None
            for op in hist:
                r = hs.apply_op(m, trace, op)
                res["tr"] += 1
                raised = r if isinstance(r, Exception) else None
            res["n"] += 1
            msgs = invariants(m)
            res["tv"] += 1
            for msg in msgs[:3]:
                res["v"].append({"msg": f"{al.describe_graph(graph)} trace {trace} cfg {c} after history {hist}"
                                        f"{' (last call raised ' + repr(raised) + ')' if raised is not None else ''}: {msg}",
                                 "case": {"gs": egraph, "pos": pos, "trace": trace, "cfg": c, "hist": hist}})
            snap = ms.lattice_snapshot(m)
            key = fp(snap)
            outs.add(key)
            if key in seen:
                continue
            seen.add(key)
            if len(hist) > 1 and m.lattice and any(e.stop or e.delayed > 0 or e.obs_ne for col in m.lattice.values() for layer in col.o for e in layer.values()):
                res["nt"] += 1
            if state is None or len(hist) >= depth:
                continue
            for op in hs.enabled_ops(state, T, widths=(2, 3), allow_continue=True, allow_fresh=(True if case.get("tier") == "thorough" else "shorter")):
                frontier.append((hist + [op], hs.step_state(state, op)))
        res["st"] += len(seen)
    ms.set_debug(False)
    res["out"] = sorted(outs)[:3000]
    res["v"] = res["v"][:20]
    return res


def describe(case):
    return {k: case[k] for k in case if k != "tier"}
