"""C17 — matching is total on valid input and ignores timestamps."""
import itertools
import math

from mc import bind  # noqa: F401
from mc import alphabet as al
from mc import maps
from mc import mspace as ms
from mc import histories as hs
from mc import refgeom as rg

ID = "C17"
TITLE = "Matching is total on valid input and ignores timestamps"
MANIFEST = {
    "text": "The degenerate GRID slice - observations exactly on nodes and on edges, repeated observations, traces collinear with roads, and "
            "a zero-length road between two co-located nodes - over all graphs on 2-3 placed nodes, both metrics (planar; the same maps at "
            "40 m per unit on the sphere), 3 families x non-emitting on/off x obs_noise in {0.1,0.5,1,3,8,50} x cut-offs {none, finite} "
            "x widths {None,1}: match() must return a (list, int) pair without raising, and the same trace given as (lat, lon, time) "
            "triples must produce exactly the canonical result of the trace given as pairs.",
    "note": "Trusted: the comparison. GENERIC inputs are covered by the other checks (every library exception there is reported as a "
            "violation too); this check concentrates on the inputs where guards and special-case branches run.",
    "technique": "bounded-exhaustive enumeration of degenerate inputs x configurations; totality and pairs-vs-triples differential oracle",
}
MANIFEST["text"] += " " + (
    'Added after the seeding waves: triples with datetime time stamps, the named graphs with small noise (internal guards must not fire), non-emitting noise smaller than the emitting one, and the SQLite backend with small numeric time stamps and a finite initial radius; the pairs-vs-triples comparison also after an extension (match prefix, match(all, expand=True)), a widening and a re-run on the width-limited configurations.')
BUDGET = {"quick": 900, "thorough": 3000}
RULE = ("states = (input, configuration, metric) pairs of runs, transitions = matcher executions, traces validated = pairs-vs-triples "
        "comparisons; non-trivial = the trace contains an observation exactly on a node/edge, a repeat, or the map has a zero-length "
        "road; outcomes = canonical results.")
ASSUMPTIONS = ["valid input = finite coordinates, non-empty trace, every neighbour label is a node"]

NOISES = [0.1, 0.5, 1.0, 3.0, 8.0, 50.0]
UNIT = 40.0
ANCHOR = (50.86, 4.7)
ZERO_POS = [(0.0, 0.0), (0.0, 2.0), (0.0, 0.0)]     # node 2 co-located with node 0: zero-length roads 0<->2


def configs():
    out = []
    for f in ms.FAMS:
        for ne in (False, True):
            for noise in NOISES:
                out.append(dict(fam=f, ne=ne, avoid=True, width=None, obs_noise=noise))
            out.append(dict(fam=f, ne=ne, avoid=True, width=None, obs_noise=1.0, max_dist=1.5, min_prob_norm=0.3))
            out.append(dict(fam=f, ne=ne, avoid=True, width=1, obs_noise=1.0))
            out.append(dict(fam=f, ne=ne, avoid=False, width=1, obs_noise=3.0, max_dist=2.5, max_dist_init=1.1, obs_noise_ne=8.0))
            if ne:
                out.append(dict(fam=f, ne=True, avoid=True, width=None, obs_noise=3.0, obs_noise_ne=0.5))
                out.append(dict(fam=f, ne=True, avoid=True, width=None, obs_noise=1.0, obs_noise_ne=0.1, dist_noise=2.0, dist_noise_ne=0.5))
    return out


CFGS = configs()


def space(tier):
    return {"configurations": len(CFGS), "noise": NOISES, "metrics": ["planar", f"latlon at {ANCHOR}, {UNIT} m per unit"],
            "zero_length_positions": ZERO_POS, "forms": ["pairs", "(lat, lon, float time) triples", "(lat, lon, datetime) triples (traces of length <= 2)"]}


def cases(tier):
    for metric in ("planar", "latlon"):
        for n in (2, 3):
            for mask in al.masks(n):
                if metric == "latlon" and tier == "quick" and al.nedges(mask) > 3:
                    continue
                yield {"metric": metric, "pos": "GRID", "n": n, "mask": mask, "tier": tier}
        for mask in al.masks(3):
            if tier == "quick" and al.nedges(mask) > (4 if metric == "planar" else 2):
                continue
            yield {"metric": metric, "pos": "ZERO", "n": 3, "mask": mask, "tier": tier}
    # the SQLite backend (its radius queries receive the observation as it is, time component included), with small numeric
    # time stamps and a finite initial radius
    for n in (2, 3):
        for mask in al.masks(n, max_edges=3 if tier == "quick" else None):
            yield {"metric": "planar", "pos": "GRID", "n": n, "mask": mask, "tier": tier, "backend": "sqlite"}
    # larger named graphs (chains, cycles, re-converging roads) with sparse traces: the internal consistency guards
    # ("monotonic probability", "logprob > 0") must not fire on them either
    yield from special_cases(tier)


def special_cases(tier):
    from mc import mspace as _ms
    for name, pos, g in _ms.special_graphs():
        yield {"metric": "planar", "pos": pos, "special": name, "tier": tier}


def to_ll(p):
    d = math.hypot(p[0], p[1]) * UNIT
    if d == 0:
        return ANCHOR
    return rg.sph_dest(ANCHOR, math.degrees(math.atan2(p[1], p[0])), d)


def trace_list(case):
    obs = al.OBS_GRID[:4]       # on a node, on an edge, off-road, beside
    out = [list(t) for T in (1, 2) for t in itertools.product(obs, repeat=T)]
    out += [[(0.0, 0.0), (0.0, 1.0), (0.0, 2.0)], [(0.0, 2.0), (0.0, 1.0), (0.0, 0.0)], [(0.0, 1.0), (0.0, 1.0), (0.0, 1.0)],
            [(0.0, 0.5), (0.0, 1.5), (0.0, 0.5)], [(1.0, 1.0), (0.0, 0.0), (1.0, 1.0)], [(0.0, 0.0), (2.0, 0.0), (0.0, 2.0)],
            [(0.0, 3.0), (0.0, -1.0), (0.0, 3.0)], [(1.0, 0.0), (1.0, 1.0), (1.0, 2.0)], [(0.0, 0.0), (0.0, 0.0), (2.0, 2.0)],
            [(0.0, 1.0), (1.0, 3.0), (0.0, 1.0)]]
    if case.get("tier") == "thorough":
        out += [list(t) for t in itertools.product(obs, repeat=3)]
    return out


def run_case(case):
    res = dict(n=0, st=0, tr=0, tv=0, nt=0, out=[], v=[], k=[])
    outs = set()
    latlon = case["metric"] == "latlon"
    if "special" in case:
        from checks import _pathspace as _ps
        g0 = [g for name, pos_, g in ms.special_graphs() if name == case["special"]][0]
    else:
        pos = al.GRID if case["pos"] == "GRID" else ZERO_POS
        g0 = al.graph_from_mask(case["n"], case["mask"], pos)
    if latlon:
        graph = {k: (to_ll(v[0]), list(v[1])) for k, v in g0.items()}
    else:
        graph = g0
    mp = maps.inmem(graph, use_latlon=latlon) if case.get("backend") != "sqlite" else maps.sqlite(graph, use_latlon=latlon)
    if "trace" in case:
        traces = [[tuple(p) for p in case["trace"]]]
    elif "special" in case:
        traces = _ps.special_traces(case["pos"], g0)
    else:
        traces = trace_list(case)
    if case.get("backend") == "sqlite" and "cfg" not in case:
        case = dict(case, cfg_list=[c for c in CFGS if c["fam"] != "SN" and c["obs_noise"] in (1.0, 3.0) and (c.get("max_dist") or c.get("width") is None)])
    cfgs = [case["cfg"]] if "cfg" in case else case["cfg_list"] if "cfg_list" in case else (CFGS if "special" not in case else [c for c in CFGS if c["ne"] and c["obs_noise"] in (0.1, 1.0, 3.0) and c.get("width") is None])
    for trace in traces:
        tr = [to_ll(p) for p in trace] if latlon else trace
        tr3 = [(p[0], p[1], 1000.0 + 7.0 * i) for i, p in enumerate(tr)]
        if case.get("backend") == "sqlite":
            tr3 = [(p[0], p[1], 0.25 * i) for i, p in enumerate(tr)]        # seconds since the start of the trace
        import datetime as _dt
        tr3d = [(p[0], p[1], _dt.datetime(2020, 1, 1, 12, 0, 0) + _dt.timedelta(seconds=7 * i)) for i, p in enumerate(tr)]
        for c in cfgs:
            cc = dict(c)
            if latlon:
                for key in ("obs_noise", "obs_noise_ne", "max_dist", "max_dist_init"):
                    if cc.get(key) is not None:
                        cc[key] = cc[key] * UNIT
            got = []
            forms = (tr, tr3, tr3d) if (len(tr) <= 2 or "trace" in case) else (tr, tr3)
            for t in forms:
                m = ms.make_matcher(mp, cc)
                try:
                    r = m.match(list(t))
                    ok = isinstance(r, tuple) and len(r) == 2 and isinstance(r[0], list) and isinstance(r[1], int) and not isinstance(r[1], bool)
                    got.append(ms.canon(m, r, nd=12) if ok else ("BAD", repr(r)))
                except Exception as exc:  # noqa
                    got.append(("EXC", repr(exc)))
                res["n"] += 1
                res["tr"] += 1
            res["st"] += 1
            res["tv"] += 1
            res["nt"] += 1
            mini = {k: case[k] for k in ("metric", "pos", "n", "mask", "special", "backend") if k in case}
            mini.update({"trace": trace, "cfg": c})
            where = f"{case['metric']} {al.describe_graph(g0)} trace {trace} cfg {c}"
            # incremental matching is matching too: the same pairs-vs-triples comparison after an extension and after a widening
            # (on the configurations with a width or a cut-off; the trace is kept by the matcher between the calls)
            if len(tr) >= 2 and c.get("width") and c["obs_noise"] in (1.0, 3.0):
                hists = [[["M", 1], ["X", len(tr)]], [["M", len(tr)], ["W", 3]]]
                if c.get("max_dist"):
                    hists.append([["M", len(tr)], ["X", len(tr)]])
                for hist in hists:
                    hgot = []
                    for t in forms[:2]:
                        m = ms.make_matcher(mp, cc)
                        r = None
                        for op in hist:
                            r = hs.apply_op(m, t, op)
                            res["n"] += 1
                            res["tr"] += 1
                            if isinstance(r, Exception):
                                break
                        if isinstance(r, Exception):
                            hgot.append(("EXC", repr(r)))
                        else:
                            hgot.append(ms.canon(m, r, nd=12))
                    res["tv"] += 1
                    if hgot[0] != hgot[1]:
                        res["v"].append({"msg": f"{where} history {hist}: with (lat, lon, time) triples {hgot[1][:3]}, with pairs {hgot[0][:3]}",
                                         "case": dict(mini, hist=hist)})
            for form, g in zip(("pairs", "triples with a float time", "triples with a datetime time"), got):
                if g[0] in ("EXC", "BAD"):
                    res["v"].append({"msg": f"{where} ({form}): match " + ("raised " if g[0] == "EXC" else "returned ") + g[1][:300], "case": mini})
            for gi in range(1, len(got)):
                if got[0][0] not in ("EXC", "BAD") and got[gi][0] not in ("EXC", "BAD") and got[0] != got[gi]:
                    res["v"].append({"msg": f"{where}: result with (lat, lon, time) triples {got[gi][:3]} differs from the result with pairs {got[0][:3]}",
                                     "case": mini})
            outs.add(got[0][:2])
    maps.close(mp)
    res["out"] = sorted(outs, key=repr)[:1000]
    res["v"] = res["v"][:20]
    return res


def describe(case):
    d = {k: case[k] for k in case if k not in ("tier", "cfg_list")}
    if "special" not in case:
        d["graph"] = al.describe_graph(al.graph_from_mask(case["n"], case["mask"], al.GRID if case["pos"] == "GRID" else ZERO_POS))
    return d
