"""C20 — path interpolation densifies without moving anything.

All traces of length 1..T over a small point alphabet (with a repeated point and two points closer than
every spacing) x spacings, both metrics, pairs and (y, x, t) triples; oracle from the statement."""
import itertools
import math

from mc import bind  # noqa: F401
from mc import refgeom as rg
from leuvenmapmatching.util import dist_euclidean as de
from leuvenmapmatching.util import dist_latlon as dl

ID = "C20"
TITLE = "Path interpolation densifies without moving anything"
MANIFEST = {
    "text": "Every trace of length 1..3 (thorough 1..4) over 6 planar points and over 5 geodesic points at 4 anchors, for every "
            "spacing of a finite set (including spacings larger than every gap, smaller than every gap, and exact divisors of a gap), "
            "is run through the real interpolate_path and checked against the statement: end points kept, originals kept in order, "
            "inserted points on the connecting segment / great-circle arc and ordered along it, no gap above the spacing.",
    "note": "Trusted: mc/refgeom.py. Finite alphabet of points and spacings; tolerances 1e-9 relative (planar), 1 mm off-arc and "
            "1e-6 relative on gaps (geodesic).",
    "technique": "bounded-exhaustive enumeration of traces x spacings with an oracle derived from the statement",
}
MANIFEST["text"] += " " + (
    'Added after the seeding waves: spacings derived from the legs of each trace (just below / above an exact divisor).')
BUDGET = {"quick": 120, "thorough": 900}
RULE = ("cases = (metric, anchor, trace length, first point); each enumerates all traces with that first point x all spacings x "
        "{pairs, triples}. states = (trace, spacing) inputs evaluated, transitions = output points checked, non-trivial = at least "
        "one point was inserted; outcomes = (number of inserted points per gap).")
ASSUMPTIONS = ["planar tolerance 1e-9 relative, geodesic 1 mm off the arc and 1e-6 relative on gaps"]
ALLOW_NO_NONTRIVIAL = False

P_PLANAR = [(0.0, 0.0), (0.0, 3.0), (4.0, 0.0), (1.5, 2.5), (0.0, 0.1), (0.1, 0.7)]
DD_PLANAR = [0.3, 1.0, 2.5, 5.0, 100.0, 0.7, 0.1, 1.5]
ANCHORS = [(50.0, 4.0), (-33.3, -70.1), (59.9, 178.5), (0.0, 0.0)]
DD_GEO = [10.0, 50.0, 333.0, 5000.0, 2.9, 60.0]


def geo_points(a):
    return [a, rg.sph_dest(a, 17.0, 120.0), rg.sph_dest(a, 115.0, 35.0), rg.sph_dest(a, 230.0, 1000.0), rg.sph_dest(a, 290.0, 3.0)]


def space(tier):
    T = 3 if tier == "quick" else 4
    return {"trace_lengths": list(range(1, T + 1)), "planar_points": P_PLANAR, "planar_spacings": DD_PLANAR,
            "geodesic_anchors": ANCHORS, "geodesic_offsets_m": [0, 120, 35, 1000, 3], "geodesic_spacings_m": DD_GEO,
            "forms": ["pairs", "(y,x,t) triples"],
            "derived_spacings": "for the first two distinct leg lengths L of every trace and n in {1,2,3}: L/n (1 -/+ 1e-7) (1e-5 geodesic)"}


def cases(tier):
    T = 3 if tier == "quick" else 4
    for t in range(1, T + 1):
        for i in range(len(P_PLANAR)):
            yield {"metric": "planar", "T": t, "i": i}
    for ai in range(len(ANCHORS)):
        for t in range(1, T + 1):
            for i in range(5):
                yield {"metric": "latlon", "anchor": ai, "T": t, "i": i}


def check(path, out, dd, latlon):
    errs = []
    if tuple(out[0]) != tuple(path[0]) or tuple(out[-1]) != tuple(path[-1]):
        errs.append(f"first/last point changed: {out[0]}..{out[-1]}")
    idx = []
    j = 0
    for p in path:
        while j < len(out) and tuple(out[j]) != tuple(p):
            j += 1
        if j == len(out):
            errs.append(f"original point {p} missing (or out of order) in the output")
            return errs, 0
        idx.append(j)
        j += 1
    if idx[0] != 0:
        errs.append("points before the first original")
    # The statement allows an inserted point that coincides with the following original (the implementation emits the
    # end point of every subdivided gap twice): match the last original to the last output point, whatever lies
    # before it is then judged as an inserted point of the last gap.
    if tuple(out[-1]) == tuple(path[-1]) and (len(path) == 1 or idx[-2] < len(out) - 1):
        idx[-1] = len(out) - 1
    if idx[-1] != len(out) - 1:
        errs.append("points after the last original")
    inserted = 0
    for k in range(len(path) - 1):
        a, b = path[k], path[k + 1]
        ins = out[idx[k] + 1:idx[k + 1]]
        inserted += len(ins)
        prevt = 0.0
        for q in ins:
            if latlon:
                A, B, Q = rg.ll2v(a[0], a[1]), rg.ll2v(b[0], b[1]), rg.ll2v(q[0], q[1])
                dab = rg.vangle(A, B)
                if dab == 0:
                    off, t, ttol = rg.R_EARTH * rg.vangle(A, Q), 0.0, 0.0
                else:
                    n = rg.vunit(rg.vcross(A, B))
                    off = abs(rg.R_EARTH * math.asin(max(-1.0, min(1.0, rg.vdot(Q, n)))))
                    t = math.atan2(rg.vdot(rg.vcross(A, Q), n), rg.vdot(A, Q)) / dab
                    ttol = 1e-3 / (rg.R_EARTH * dab)
                tol = 1e-3
            else:
                l2 = (a[0] - b[0]) ** 2 + (a[1] - b[1]) ** 2
                if l2 == 0:
                    off, t = rg.dist(a, q), 0.0
                else:
                    t = ((q[0] - a[0]) * (b[0] - a[0]) + (q[1] - a[1]) * (b[1] - a[1])) / l2
                    off = abs((q[0] - a[0]) * (b[1] - a[1]) - (q[1] - a[1]) * (b[0] - a[0])) / math.sqrt(l2)
                tol, ttol = 1e-9 * (1 + math.sqrt(l2)), 1e-9
            if off > tol:
                errs.append(f"inserted point {q} is {off} off the connection {a}-{b}")
            if t < -ttol or t > 1 + ttol:
                errs.append(f"inserted point {q} lies outside the connection {a}-{b} (parameter {t})")
            if t < prevt - ttol:
                errs.append(f"inserted points between {a} and {b} are not ordered along the connection")
            prevt = t
    D = rg.sph_dist if latlon else rg.dist
    for p, q in zip(out, out[1:]):
        g = D(p, q)
        if g > dd * (1 + (1e-6 if latlon else 1e-9)) + 1e-12:
            errs.append(f"gap {g} between {p} and {q} exceeds the spacing {dd}")
    return errs, inserted


def run_case(case):
    res = dict(n=0, st=0, tr=0, tv=0, nt=0, out=[], v=[], k=[])
    outs = set()
    latlon = case["metric"] == "latlon"
    if latlon:
        pts = geo_points(ANCHORS[case["anchor"]])
        dds = DD_GEO
        fn = dl.interpolate_path
    else:
        pts = P_PLANAR
        dds = DD_PLANAR
        fn = de.interpolate_path
    if "path" in case:
        todo = [([tuple(p) for p in case["path"]], case["dd"], case["triples"])]
    else:
        todo = []
        for rest in itertools.product(pts, repeat=case["T"] - 1):
            path = [pts[case["i"]]] + list(rest)
            # besides the fixed spacings: spacings that sit just below / above an exact divisor of a leg of this trace
            D_ = rg.sph_dist if latlon else rg.dist
            legs = sorted({D_(a, b) for a, b in zip(path, path[1:]) if D_(a, b) > 0})
            extra = []
            for L_ in legs[:2]:
                for n_ in (1, 2, 3):
                    extra += [L_ / n_ * (1 - 1e-7), L_ / n_ * (1 + 1e-7)] if not latlon else [L_ / n_ * (1 - 1e-5), L_ / n_ * (1 + 1e-5)]
            for dd in list(dds) + extra:
                todo.append((path, dd, False))
                todo.append((path, dd, True))
    for path, dd, triples in todo:
        inp = [(p[0], p[1], 10.0 * k) for k, p in enumerate(path)] if triples else list(path)
        res["n"] += 1
        res["st"] += 1
        mini = {"metric": case["metric"], "path": path, "dd": dd, "triples": triples}
        try:
            out = fn(list(inp), dd)
        except Exception as exc:  # noqa
            res["v"].append({"msg": f"interpolate_path({inp},{dd}) raised {exc!r}", "case": mini})
            continue
        res["tr"] += len(out)
        res["tv"] += 1
        if triples:
            # the originals must be kept as given; inserted points are compared on their first two components
            errs, ins = check([tuple(p) for p in inp], [tuple(q) if len(q) == 3 else tuple(q) for q in out], dd, latlon) \
                if all(len(q) == 3 for q in out) else check(path, [tuple(q[:2]) for q in out], dd, latlon)
            for p in inp:
                if not any(tuple(q) == tuple(p) for q in out):
                    errs.append(f"original point {p} (with its time component) is not kept identically")
                    break
        else:
            errs, ins = check(path, [tuple(q) for q in out], dd, latlon)
        if ins:
            res["nt"] += 1
        outs.add((case["metric"], len(path), ins))
        for m in errs[:3]:
            res["v"].append({"msg": f"interpolate_path({inp}, {dd}) -> {out if len(out) < 12 else str(out[:12]) + '...'}: {m}", "case": mini})
    res["out"] = sorted(outs, key=repr)
    return res


def describe(case):
    return case
