"""C10 — matching is deterministic.

Part 1 (form C): the one source of nondeterminism, iteration order of hash-ordered sets of lattice entries, is
owned by the explorer: the module-global `set` of leuvenmapmatching.matcher.base is shadowed by a subclass whose
iteration order is dictated by an explicit schedule; every permutation is explored for sets of <= 4 elements and
a deviation-bounded family beyond.  Conformance: the same inputs in fresh interpreters under different
PYTHONHASHSEED values, without the shadow.
Part 2: all node listing orders and all neighbour-list permutations of the map."""
import hashlib
import itertools
import json
import os
import subprocess
import sys

from mc import bind  # noqa: F401
from mc import alphabet as al
from mc import maps
from mc import mspace as ms
from mc.refmodel import replay
from checks import _pathspace as ps
import leuvenmapmatching.matcher.base as mbase

ID = "C10"
TITLE = "Matching is deterministic"
MANIFEST = {
    "text": "Part 1: for every input of the slice (all graphs on 2-3 nodes in both alphabets - ties on GRID - and 26 named 4-12 node "
            "graphs; traces of length <= 3 incl. a far outlier; 3 families x non-emitting on/off x cut-offs that stop early) the real "
            "matcher is run once per explored iteration schedule of the shadowed `set` (all k! orders for every set of k <= 4 elements, "
            "identity/reversal/rotations/adjacent transpositions beyond) and must give identical canonical results. Conformance: the "
            "same inputs are run in fresh interpreter processes with PYTHONHASHSEED in {0..7} (thorough {0..31}) without the shadow; all "
            "must agree, and seed 0 run twice must be byte-identical. Part 2: for every graph, ALL node insertion orders and ALL "
            "permutations of every neighbour list: index and best probability identical, path identical or tie-equivalent "
            "(established by replaying the differing path in the reference model).",
    "note": "Trusted: the shadow owns every `set(...)` constructed in matcher/base.py (set displays such as {self} have one element "
            "and no order). The 2^32 hash seeds cannot be exhausted: the permutation exploration is the exhaustive part, the enumerated "
            "seeds are the conformance check that the shadowed `set` is where the nondeterminism lives.",
    "technique": "exhaustive exploration of the nondeterministic choice (set iteration order) under a controlled scheduler, plus enumerated-seed conformance runs and exhaustive listing-order permutations",
}
MANIFEST["text"] += " " + (
    'Added after the seeding waves: a deviation-bounded family of listing orders (identity, reversal, rotations, adjacent transpositions; neighbour lists reversed) on the named graphs, width-1 configurations, the fork8 graph with observations on its symmetry axis (exact ties inside a non-emitting run). Part 3 (a used matcher / map object): after EVERY history of depth <= 2 over {match prefix, extend, widen, continue_with_distance, match another trace} on a matcher whose map object served all earlier histories, a plain match(trace) must return the result and leave the complete lattice snapshot of a fresh matcher on a freshly built map (in-memory and SQLite).')
BUDGET = {"quick": 900, "thorough": 3000}
RULE = ("states = (input, schedule) executions, transitions = iterations of a shadowed set that were given an explicit order, traces "
        "validated = inputs whose result was compared across fresh interpreters with different hash seeds; non-trivial = some "
        "scheduled set had >= 2 elements (part 1) or some listing-order variant exists (part 2); outcomes = canonical results.")
ASSUMPTIONS = ["set displays ({x}) in the library hold one element", "listing-order ties are accepted only after the differing path replays to the same probability"]

CFGS = [dict(fam=f, ne=True, avoid=True, width=None) for f in ms.FAMS] + \
       [dict(fam=f, ne=True, avoid=True, width=None, max_dist=1.5) for f in ms.FAMS] + \
       [dict(fam="SN", ne=False, avoid=True, width=None, min_prob_norm=0.3), dict(fam="D", ne=True, avoid=True, width=1)]
LCFGS = [dict(fam="S", ne=True, avoid=True, width=None), dict(fam="SN", ne=True, avoid=True, width=2), dict(fam="D", ne=True, avoid=True, width=None, max_dist=2.5),
         dict(fam="D", ne=True, avoid=True, width=1), dict(fam="S", ne=True, avoid=True, width=1)]


# ------------------------------------------------------------------ the scheduler
class Schedule:
    policy = 0          # index of the current schedule
    events = 0          # iterations that were given an order
    multi = 0           # ... of sets with >= 2 elements
    kmax = 0


def family(k):
    """Deviation-bounded family of orders for k > 4: identity, reversal, rotations, adjacent transpositions."""
    ident = list(range(k))
    fam = [ident, ident[::-1]]
    for r in range(1, k):
        fam.append(ident[r:] + ident[:r])
    for i in range(k - 1):
        p = list(ident)
        p[i], p[i + 1] = p[i + 1], p[i]
        fam.append(p)
    return fam


_PERMS = {k: [list(p) for p in itertools.permutations(range(k))] for k in range(0, 5)}


def order_for(k, policy):
    if k <= 4:
        ps_ = _PERMS[k]
        return ps_[policy % len(ps_)]
    fam = family(k)
    return fam[policy % len(fam)]


def n_policies(kmax):
    if kmax <= 1:
        return 1
    if kmax <= 4:
        return len(_PERMS[kmax])
    return max(24, len(family(kmax)))


class ChoiceSet(set):
    """A set that remembers insertion order and iterates in the order the schedule dictates."""
    def __init__(self, it=()):
        super().__init__()
        self._ord = []
        for x in it:
            self.add(x)

    def add(self, x):
        n = len(self)
        super().add(x)
        if len(self) != n:
            self._ord.append(x)

    def update(self, *its):
        for it in its:
            for x in it:
                self.add(x)

    def __iter__(self):
        k = len(self._ord)
        Schedule.events += 1
        if k >= 2:
            Schedule.multi += 1
        Schedule.kmax = max(Schedule.kmax, k)
        for i in order_for(k, Schedule.policy):
            yield self._ord[i]


class Shadow:
    def __enter__(self):
        mbase.set = ChoiceSet
        return self

    def __exit__(self, *a):
        try:
            del mbase.set
        except AttributeError:
            pass


# ------------------------------------------------------------------ enumeration
def input_traces(pos):
    obs = [al.OBS[pos][0], al.OBS[pos][2], al.FAR[pos]]
    return [list(t) for T in (1, 2, 3) for t in itertools.product(obs, repeat=T)]


def special_trace_list(pos, graph):
    P = [v[0] for v in graph.values()]
    near = [(p[0] + 0.13, p[1] - 0.11) for p in P]
    n = len(P) - 1
    idx = ps.span_idx(n)
    out = [[near[min(i, n)] for i in t] for t in idx]
    out.append([near[0], near[n], al.FAR[pos]])
    return ms.axis_traces(graph) + out


def space(tier):
    return {"part1_configurations": CFGS, "schedules": "all k! for k<=4; identity, reversal, rotations, adjacent transpositions for k>4",
            "hash_seeds": list(range(8 if tier == "quick" else 32)), "part2_configurations": LCFGS,
            "listing_orders": "all n! node orders x all permutations of every neighbour list"}


def cases(tier):
    for gs in ms.graph_slice("n3"):
        yield {"kind": "order", "gs": list(gs)}
    for name, pos, g in ms.special_graphs():
        yield {"kind": "order", "gs": ms.explicit(g), "pos": pos, "name": name}
    for gs in ms.graph_slice("n3" if tier == "quick" else "n4e3"):
        yield {"kind": "listing", "gs": list(gs), "tier": tier}
    for name, pos, g in ms.special_graphs():
        yield {"kind": "listing", "gs": ms.explicit(g), "pos": pos, "name": name, "tier": tier, "bounded": True}
    for gs in ms.graph_slice("n3" if tier == "quick" else "n4e3"):
        if gs[1] >= 3 and al.nedges(gs[2]) >= 3 and (gs[0] == "GENERIC" or tier == "thorough"):
            yield {"kind": "reuse", "gs": list(gs)}
            if al.nedges(gs[2]) == 3:
                yield {"kind": "reuse", "gs": list(gs), "backend": "sqlite"}
    for name, pos, g in ms.special_graphs():
        yield {"kind": "reuse", "gs": ms.explicit(g), "pos": pos, "name": name}
    nsh = 8
    for j in range(nsh):
        yield {"kind": "seeds", "shard": j, "nshards": nsh, "tier": tier}


def run_order(case, res):
    graph = ps.graph_of(case)
    pos = ps.pos_of(case)
    egraph = ms.explicit(graph)
    mp = maps.inmem(graph)
    outs = set()
    traces = [[tuple(p) for p in case["trace"]]] if "trace" in case else \
        (special_trace_list(pos, graph) if isinstance(case["gs"], dict) else input_traces(pos))
    cfgs = [case["cfg"]] if "cfg" in case else CFGS
    with Shadow():
        for trace in traces:
            for c in cfgs:
                ref = None
                pol = 0
                npol = 1
                kmax_seen = 0
                multi = False
                while pol < npol:
                    Schedule.policy, Schedule.events, Schedule.multi, Schedule.kmax = pol, 0, 0, 0
                    m = ms.make_matcher(mp, c)
                    try:
                        got = ms.canon(m, m.match(list(trace)))
                    except Exception as exc:  # noqa
                        got = ("EXC", repr(exc))
                    res["n"] += 1
                    res["st"] += 1
                    res["tr"] += Schedule.events
                    multi |= Schedule.multi > 0
                    kmax_seen = max(kmax_seen, Schedule.kmax)
                    npol = max(npol, n_policies(kmax_seen))
                    if ref is None:
                        ref = got
                        outs.add(got[:2])
                    elif got != ref:
                        res["v"].append({"msg": f"{al.describe_graph(graph)} trace {trace} cfg {c}: iterating the sets of lattice entries in "
                                                f"schedule #{pol} (order {order_for(min(kmax_seen, 9), pol)} of insertion order) gives {got[:3]}, "
                                                f"insertion order gives {ref[:3]}",
                                         "case": {"kind": "order", "gs": egraph, "pos": pos, "trace": trace, "cfg": c}})
                        break
                    pol += 1
                if multi:
                    res["nt"] += 1
    Schedule.policy = 0
    res["out"] = sorted(outs, key=repr)[:1000]


def variants_bounded(graph):
    """Larger graphs: a deviation-bounded family instead of all n! orders - identity, reversal, every rotation and every
    adjacent transposition of the node order, each with the neighbour lists as given and all reversed, plus every single
    neighbour list reversed."""
    keys = list(graph)
    n = len(keys)
    orders = [keys, keys[::-1]] + [keys[r:] + keys[:r] for r in range(1, n)]
    for i in range(n - 1):
        o = list(keys)
        o[i], o[i + 1] = o[i + 1], o[i]
        orders.append(o)
    seen = set()
    for o in orders:
        for rev in (False, True):
            g = {k: (graph[k][0], list(graph[k][1][::-1] if rev else graph[k][1])) for k in o}
            key = repr(list(g.items()))
            if key not in seen:
                seen.add(key)
                yield g
    for k0 in keys:
        if len(graph[k0][1]) > 1:
            yield {k: (graph[k][0], list(graph[k][1][::-1] if k == k0 else graph[k][1])) for k in keys}


def variants(graph):
    """All node insertion orders x all permutations of each neighbour list."""
    keys = list(graph)
    for order in itertools.permutations(keys):
        lists = [list(itertools.permutations(graph[k][1])) for k in order]
        for combo in itertools.product(*lists):
            yield {k: (graph[k][0], list(nb)) for k, nb in zip(order, combo)}


def run_listing(case, res):
    graph = ps.graph_of(case)
    pos = ps.pos_of(case)
    egraph = ms.explicit(graph)
    outs = set()
    thorough = case.get("tier") == "thorough"
    obs = [al.OBS[pos][0], al.OBS[pos][2], al.OBS[pos][3]]
    traces = [[tuple(p) for p in case["trace"]]] if "trace" in case else \
        [list(t) for T in ((1, 2, 3) if thorough or len(graph) <= 2 else (1, 2)) for t in itertools.product(obs, repeat=T)] + \
        ([] if thorough or len(graph) <= 2 else [[obs[0]] + list(t) for t in itertools.product(obs[1:], repeat=2)])
    cfgs = [case["cfg"]] if "cfg" in case else LCFGS
    vs = list(variants_bounded(graph) if case.get("bounded") else variants(graph))
    if case.get("bounded") and "trace" not in case:
        traces = special_trace_list(pos, graph)
    if "variant" in case:
        vs = [vs[0], ms.build_graph(case["variant"])]
    mps = [maps.inmem(g) for g in vs]
    for trace in traces:
        for c in cfgs:
            ref = None
            for vi, mp in enumerate(mps):
                m = ms.make_matcher(mp, c)
                try:
                    got = ms.canon(m, m.match(list(trace)))
                except Exception as exc:  # noqa
                    got = ("EXC", repr(exc))
                res["n"] += 1
                res["st"] += 1
                res["tr"] += 1
                if ref is None:
                    ref = got
                    outs.add(got[:2])
                    continue
                res["tv"] += 1
                mini = {"kind": "listing", "gs": egraph, "pos": pos, "trace": trace, "cfg": c, "variant": ms.explicit(vs[vi])}
                where = f"{al.describe_graph(graph)} listed as {al.describe_graph(vs[vi])} trace {trace} cfg {c}"
                same_ip = got[0] == ref[0] and (got[1] == ref[1] or (got[1] is not None and ref[1] is not None and
                                                                     not isinstance(got[1], str) and abs(got[1] - ref[1]) <= 1e-9 * max(1.0, abs(ref[1]))))
                if not same_ip:
                    res["v"].append({"msg": f"{where}: (index, probability) {got[:2]} differs from {ref[:2]} for the original listing", "case": mini})
                elif got[3] and [k for k, _ in got[3]] != [k for k, _ in ref[3]]:
                    # a different path: only acceptable as a choice among exactly equally probable alternatives
                    viols, _ = replay(m, trace, ms.kind_of(c))
                    if any(t == "score" for t, _ in viols):
                        res["v"].append({"msg": f"{where}: path {[k for k, _ in got[3]]} differs from {[k for k, _ in ref[3]]} and is not an "
                                                f"equally probable alternative ({viols[0][1]})", "case": mini})
            if len(mps) > 1:
                res["nt"] += 1
    res["out"] = sorted(outs, key=repr)[:1000]


# ------------------------------------------------------------------ hash-seed conformance
def seed_inputs(tier, shard, nshards):
    i = 0
    for gs in ms.graph_slice("n3"):
        graph = ms.build_graph(tuple(gs))
        for trace in input_traces(gs[0]):
            for ci in (0, 1, 4, 6):
                if i % nshards == shard:
                    yield (list(gs), trace, ci, graph)
                i += 1
    for name, pos, g in ms.special_graphs():
        for trace in special_trace_list(pos, g):
            for ci in range(len(CFGS)):
                if i % nshards == shard:
                    yield (name, trace, ci, g)
                i += 1


def worker_main(argv):
    shard, nshards, tier = int(argv[0]), int(argv[1]), argv[2]
    out = []
    cache = {}
    for gid, trace, ci, graph in seed_inputs(tier, shard, nshards):
        key = repr(gid)
        if key not in cache:
            cache.clear()
            cache[key] = maps.inmem(graph)
        m = ms.make_matcher(cache[key], CFGS[ci])
        try:
            got = ms.canon(m, m.match(list(trace)), nd=12)
        except Exception as exc:  # noqa
            got = ("EXC", repr(exc))
        out.append(hashlib.blake2b(repr(got).encode(), digest_size=8).hexdigest())
    sys.stdout.write(json.dumps(out))


def run_seeds(case, res):
    tier = case.get("tier", "quick")
    seeds = case.get("seeds") or (list(range(8)) + [0] if tier == "quick" else list(range(32)) + [0])
    procs = []
    for s in seeds:
        env = dict(os.environ, PYTHONHASHSEED=str(s))
        procs.append((s, subprocess.Popen([sys.executable, "-m", "checks.c10", "worker", str(case["shard"]), str(case["nshards"]), tier],
                                          stdout=subprocess.PIPE, stderr=subprocess.PIPE, env=env, cwd=os.path.dirname(os.path.dirname(os.path.abspath(__file__))))))
    results = []
    for s, p in procs:
        o, e = p.communicate()
        if p.returncode != 0:
            raise RuntimeError(f"hash-seed worker (seed {s}) failed: {e.decode()[-800:]}")
        results.append((s, json.loads(o.decode())))
    inputs = list(seed_inputs(tier, case["shard"], case["nshards"]))
    ref = results[0][1]
    res["n"] += len(ref) * len(results)
    res["st"] += len(ref) * len(results)
    res["tr"] += len(ref) * len(results)
    res["tv"] += len(ref)
    res["nt"] += len(ref)
    for s, r in results[1:]:
        if len(r) != len(ref):
            raise RuntimeError("hash-seed workers enumerated different inputs")
        for i, (a, b) in enumerate(zip(ref, r)):
            if a != b:
                gid, trace, ci, graph = inputs[i]
                res["v"].append({"msg": f"{al.describe_graph(graph)} trace {trace} cfg {CFGS[ci]}: the canonical result differs between fresh "
                                        f"interpreters with PYTHONHASHSEED={results[0][0]} and PYTHONHASHSEED={s}",
                                 "case": {"kind": "seedcase", "gs": ms.explicit(graph), "trace": trace, "cfg": CFGS[ci], "seeds": [results[0][0], s]}})
                if len(res["v"]) > 10:
                    break
    res["out"] = [("seeds", len(ref))]


def worker1_main():
    case = json.loads(sys.stdin.read())
    graph = ms.build_graph(case["gs"])
    m = ms.make_matcher(maps.inmem(graph), case["cfg"])
    try:
        got = ms.canon(m, m.match([tuple(p) for p in case["trace"]]), nd=12)
    except Exception as exc:  # noqa
        got = ("EXC", repr(exc))
    sys.stdout.write(repr(got))


def run_seedcase(case, res):
    outs = []
    for s in case["seeds"]:
        p = subprocess.run([sys.executable, "-m", "checks.c10", "worker1"], input=json.dumps(case).encode(), capture_output=True,
                           env=dict(os.environ, PYTHONHASHSEED=str(s)), cwd=os.path.dirname(os.path.dirname(os.path.abspath(__file__))))
        if p.returncode != 0:
            raise RuntimeError(p.stderr.decode()[-800:])
        outs.append(p.stdout.decode())
        res["n"] += 1
    res["st"] = res["tr"] = res["tv"] = res["nt"] = 1
    if len(set(outs)) > 1:
        res["v"].append({"msg": f"trace {case['trace']} cfg {case['cfg']}: result differs between PYTHONHASHSEED values {case['seeds']}: "
                                f"{outs[0][:300]} vs {[o for o in outs if o != outs[0]][0][:300]}", "case": case})

# ------------------------------------------------------------------ part 3: a used matcher / a used map object
RCFGS = [dict(fam=f, ne=ne, avoid=True, width=w, max_dist=2.5) for f in ms.FAMS for ne in (False, True) for w in (None, 1)] + \
        [dict(fam="D", ne=True, avoid=False, width=2, min_prob_norm=0.3, obs_noise_ne=2.0)]


def run_reuse(case, res):
    """'The same map, trace and configuration always produce the same result': a plain match(trace) on a matcher object
    that went through ANY history of public calls before (other prefixes, extensions, widenings, jumps, another trace),
    on a map object that answered all the queries of all the earlier histories of this case, must leave exactly the
    lattice (and return exactly the result) that a fresh matcher on a freshly built map produces."""
    from mc import histories as hs
    graph = ps.graph_of(case)
    pos = ps.pos_of(case)
    egraph = ms.explicit(graph)
    backend = case.get("backend", "inmem")
    build = (lambda: maps.inmem(graph)) if backend == "inmem" else (lambda: maps.sqlite(graph))
    mp = build()
    outs = set()
    if "trace" in case:
        traces = [[tuple(p) for p in case["trace"]]]
    elif isinstance(case["gs"], dict):
        traces = special_trace_list(pos, graph)[:4]
    else:
        o = al.OBS[pos]
        traces = [[o[0], o[1], o[2]], [o[1], al.FAR[pos], o[2]], [o[2], o[0], o[3]]]
    cfgs = [case["cfg"]] if "cfg" in case else [c for c in RCFGS if backend == "inmem" or c["fam"] != "SN"]
    try:
        for trace in traces:
            T = len(trace)
            for c in cfgs:
                refs = {}
                if "hist" in case:
                    hists = [case["hist"]]
                else:
                    hists = hs.all_histories(T, 2, c.get("width"), widths=(2, 3), allow_continue=True, allow_fresh=True)
                    hists += [[["M", T], ["N"]], [["N"]], [["M", 1], ["X", T], ["N"]], [["M", T], ["C", None], ["X", T]]]
                for hist in hists:
                    m = ms.make_matcher(mp, c)
                    for op in hist:
                        hs.apply_op(m, trace, op)
                        res["tr"] += 1
                    try:
                        got = ms.canon(m, m.match(list(trace)))
                    except Exception as exc:  # noqa
                        got = ("EXC", repr(exc))
                    snap = ms.lattice_snapshot(m)
                    w = m.max_lattice_width
                    if w not in refs:
                        mp0 = build()
                        m0 = ms.make_matcher(mp0, dict(c, width=w))
                        try:
                            r0 = ms.canon(m0, m0.match(list(trace)))
                        except Exception as exc:  # noqa
                            r0 = ("EXC", repr(exc))
                        refs[w] = (r0, ms.lattice_snapshot(m0))
                        maps.close(mp0)
                        res["tr"] += 1
                    res["n"] += 1
                    res["st"] += 1
                    res["tv"] += 1
                    res["nt"] += 1
                    outs.add(got[:2])
                    if (got, snap) != refs[w]:
                        what = "result" if got != refs[w][0] else "lattice"
                        res["v"].append({"msg": f"{al.describe_graph(graph)} ({backend}) trace {trace} cfg {c}: match(trace) after history {hist} on a used "
                                                f"matcher/map gives a different {what} than a fresh matcher on a fresh map: {str(got[:3])[:300]} vs {str(refs[w][0][:3])[:300]}",
                                         "case": {"kind": "reuse", "gs": egraph, "pos": pos, "trace": trace, "cfg": c, "hist": hist, "backend": backend}})
    finally:
        maps.close(mp)
    res["out"] = sorted(set(res["out"]) | {repr(o) for o in outs})[:1000]


def run_case(case):
    res = dict(n=0, st=0, tr=0, tv=0, nt=0, out=[], v=[], k=[])
    {"order": run_order, "listing": run_listing, "seeds": run_seeds, "seedcase": run_seedcase, "reuse": run_reuse}[case["kind"]](case, res)
    res["v"] = res["v"][:20]
    return res


def describe(case):
    return {k: case[k] for k in case if k != "tier"}


if __name__ == "__main__" and len(sys.argv) > 1 and sys.argv[1] == "worker":
    worker_main(sys.argv[2:])
if __name__ == "__main__" and len(sys.argv) > 1 and sys.argv[1] == "worker1":
    worker1_main()
