"""C06 — allowing non-emitting states never makes the match worse (differential, form A)."""
from mc import bind  # noqa: F401
from mc import alphabet as al
from mc import maps
from mc import mspace as ms
from mc.refmodel import Model
from checks import _pathspace as ps

ID = "C06"
TITLE = "Allowing non-emitting states never makes the match worse"
MANIFEST = {
    "text": "Every input of the shared slice (all graphs on 2-3 nodes in two alphabets, 4-node graphs with <= 3 edges, 26 named 4-12 "
            "node graphs where only a non-emitting bridge explains the trace) x 3 families x 6 cut-off sets x 2 noise settings is "
            "matched twice on the real code, non-emitting states off and on (first-order model, no width): the matched index with the "
            "feature on is >= the one with it off, and when both match the whole trace the best live emitting entry of the last "
            "column with the feature on is >= the one with it off.  The 'off' value is additionally cross-checked against the all-walks "
            "reference (third witness).",
    "note": "Trusted: the comparison; mc/refmodel.py for the third witness. avoid_goingback=False and max_lattice_width=None as the "
            "statement requires (first-order model, no pruning).",
    "technique": "bounded-exhaustive differential enumeration: every input executed in both modes and compared",
}
MANIFEST["text"] += " " + (
    'Added after the seeding waves: noise settings with dist_noise_ne < dist_noise; the run with the feature on is also obtained incrementally (match the first observation, then match(all, expand=True)) for every second configuration and compared with the run without the feature.')
BUDGET = {"quick": 900, "thorough": 3000}
RULE = ("states = lattice columns compared (two per observation), transitions = implementation runs, traces validated = pairs whose "
        "'off' side was also compared with the all-walks reference; non-trivial = the two runs differ (index, probability or a "
        "non-emitting state on the best path); outcomes = (index off, index on, sign of the probability difference).")
ASSUMPTIONS = ["probabilities compared with 1e-9 relative slack"]

NOISE = [{"obs_noise": 1.0}, {"obs_noise": 0.5, "obs_noise_ne": 1.5, "dist_noise": 2.0}, {"obs_noise": 1.0, "dist_noise": 3.0, "dist_noise_ne": 0.3}]


def configs(noises):
    for fam in ms.FAMS:
        for cut in ms.CUTS:
            for ni in noises:
                c = {"fam": fam, "avoid": False, "width": None}
                c.update(ms.CUTS[cut])
                c.update(NOISE[ni])
                yield c


def space(tier):
    return {"families": ms.FAMS, "cutoffs": ms.CUTS, "noise": NOISE, "trace_length": 3 if tier == "quick" else 4}


def cases(tier):
    for c in ps.cases(tier, with_hist=False, n4_level="n4e3" if tier == "quick" else "n4e4"):
        c["tier"] = tier
        yield c


def best_live_emitting(m, idx):
    vals = [e.logprob for e in m.lattice[idx].values(0) if not e.stop]
    return max(vals) if vals else None


def run_case(case):
    res = dict(n=0, st=0, tr=0, tv=0, nt=0, out=[], v=[], k=[])
    outs = set()
    graph = ps.graph_of(case)
    pos = ps.pos_of(case)
    egraph = ms.explicit(graph)
    mp = maps.inmem(graph)
    traces = ps.traces_of(case, graph)
    if "cfg" in case:
        cfgs = [case["cfg"]]
    else:
        cfgs = list(configs([0, 1] if case["slice"] == "n3" else ([0, 1, 2] if case["slice"] == "special" else [0, 2])))
        cfgs = [c for c in cfgs if not ("dist_noise_ne" in c and c["fam"] != "D")]
    for trace in traces:
        T = len(trace)
        for ci, c in enumerate(cfgs):
            r = {}
            for ne in (False, True):
                cc = dict(c, ne=ne)
                m = ms.make_matcher(mp, cc)
                try:
                    rr = m.match(list(trace))
                except Exception as exc:  # noqa
                    rr = exc
                r[ne] = (m, rr)
                res["n"] += 1
                res["tr"] += 1
            mini = {"kind": "run", "gs": egraph, "pos": pos, "slice": case["slice"], "trace": trace, "cfg": c}
            where = f"{al.describe_graph(graph)} trace {trace} cfg {c}"
            bad = [ne for ne in (False, True) if isinstance(r[ne][1], Exception) or not (isinstance(r[ne][1], tuple) and len(r[ne][1]) == 2)]
            if bad:
                res["v"].append({"msg": f"{where}: non_emitting={bad[0]} gave {r[bad[0]][1]!r}", "case": mini})
                continue
            (m0, (s0, i0)), (m1, (s1, i1)) = r[False], r[True]
            res["st"] += 2 * T
            e0 = -1 if not s0 else i0      # an empty result matched nothing
            e1 = -1 if not s1 else i1
            if e1 < e0:
                res["v"].append({"msg": f"{where}: with non-emitting states the match ends at index {e1} ({s1}), without them at {e0} ({s0})",
                                 "case": mini})
            sign = None
            if e0 == e1 == T - 1:
                b0, b1 = best_live_emitting(m0, T - 1), best_live_emitting(m1, T - 1)
                if b0 is None or b1 is None:
                    res["v"].append({"msg": f"{where}: complete match but no live emitting entry in the last column (off={b0}, on={b1})", "case": mini})
                else:
                    sign = int(b1 > b0 + 1e-12) - int(b1 < b0 - 1e-9 * max(1.0, abs(b0)))
                    if sign < 0:
                        res["v"].append({"msg": f"{where}: best emitting log-probability with non-emitting states {b1} < without {b0}", "case": mini})
                    # third witness for the 'off' side
                    ref = Model(graph, dict(c, ne=False)).all_walks(trace)
                    res["tv"] += 1
                    # (D2 can hide start candidates from both runs alike; only compare when the start sets coincide)
                    if ref["last"] == T - 1 and not c.get("max_dist") and abs(ref["best"] - b0) > 1e-9 * max(1.0, abs(b0)):
                        res["v"].append({"msg": f"{where}: emitting-only best {b0} != all-walks optimum {ref['best']}", "case": mini})
            # the "on" side reached incrementally (match the first observation, then extend): switching the feature on must
            # not make the match worse on that route either (every second configuration, to bound the cost)
            if T >= 2 and ci % 2 == 0:
                m2 = ms.make_matcher(mp, dict(c, ne=True))
                try:
                    m2.match(list(trace[:1]))
                    r2 = m2.match(list(trace), expand=True)
                except Exception as exc:  # noqa
                    r2 = exc
                res["n"] += 2
                res["tr"] += 2
                if isinstance(r2, Exception) or not (isinstance(r2, tuple) and len(r2) == 2):
                    res["v"].append({"msg": f"{where}: non_emitting=True, match(first observation) + match(all, expand=True) gave {r2!r}", "case": mini})
                else:
                    e2 = -1 if not r2[0] else r2[1]
                    if e2 < e0:
                        res["v"].append({"msg": f"{where}: with non-emitting states, matched incrementally (first observation, then extended), the match "
                                                f"ends at index {e2}, without them at {e0}", "case": mini})
                    elif e0 == e2 == T - 1:
                        b0_, b2 = best_live_emitting(m0, T - 1), best_live_emitting(m2, T - 1)
                        if b0_ is not None and (b2 is None or b2 < b0_ - 1e-9 * max(1.0, abs(b0_))):
                            res["v"].append({"msg": f"{where}: best emitting log-probability with non-emitting states, matched incrementally, {b2} < without {b0_}",
                                             "case": mini})
            lb1 = m1.lattice_best or []
            if e0 != e1 or (sign not in (None, 0)) or any(e.obs_ne for e in lb1):
                res["nt"] += 1
            outs.add((e0, e1, sign))
    res["out"] = sorted(outs, key=repr)
    return res


def describe(case):
    return {k: case[k] for k in case if k != "tier"}
