"""C01 — emitting-only matching returns a maximum-probability walk.

graphs x traces x {Simple edge, Simple node+edge, Distance} x cut-off sets x noise, non-emitting off, no width,
first-order transitions; oracle = explicit search over all admissible walks (mc.refmodel.Model.all_walks)."""
import itertools

from mc import bind  # noqa: F401
from mc import alphabet as al
from mc import maps
from mc import mspace as ms
from mc.refmodel import Model, state_of
from leuvenmapmatching.util.segment import Segment

NAMED = ("26 named 4-12 node graphs (chains, cycles, star, complete graph, diamonds and an X-crossing whose roads re-converge, a fork "
         "with exact ties, two road islands, two feeder roads, two approach roads, a far fan-out)")
ID = "C01"
TITLE = "Emitting-only matching returns a maximum-probability walk"
MANIFEST = {
    "text": "Every directed graph on 2-3 placed nodes (two position alphabets: dyadic GRID with exact ties and observations on "
            "roads/nodes, GENERIC in general position), every 4-node graph with <= 3 edges (thorough <= 6) and " + NAMED + ", every trace of length <= 3 over a 4-point observation alphabet (<= 2 on the 4-node family in the quick tier), "
            "3 matcher families x 6 cut-off sets x 2 noise settings x integer/string labels is matched by the real code and compared "
            "with an explicit search over ALL admissible walks of the product graph: empty result iff no start candidate, index = "
            "longest explainable prefix, best probability = maximum over all walks, the returned walk is admissible and attains it, "
            "the best live lattice entry has the same value.  Finite-radius configurations are additionally run on SqliteMap; "
            "node-and-edge states additionally with the package logger at DEBUG; and every named graph and GENERIC 3-node graph additionally "
            "on a matcher object that was used for another trace before.",
    "note": "Trusted: mc/refmodel.py (documented model, no dynamic programming), mc/refgeom.py; the model is cross-validated by "
            "re-scoring one optimal walk per case through the implementation's own first()/next() scoring. Known finding D2 "
            "(in-memory start candidates with a finite initial radius) is recognised by evaluating the reference a second time with "
            "exactly the start set D2 predicts; any other disagreement is a violation. Bounds: <= 5 nodes, <= 3 observations (4 thorough).",
    "technique": "bounded-exhaustive enumeration of inputs x configurations against an all-walks explicit-state reference model",
}
BUDGET = {"quick": 900, "thorough": 3000}
RULE = ("cases = (graph, labels); each enumerates traces x families x cut-offs x noise. states = product states (road state, "
        "observation index) reached by the all-walks search, transitions = moves it evaluated, traces validated = optimal model walks "
        "re-scored through the implementation's first()/next(); non-trivial = at least two admissible walks with different "
        "probabilities for the matched prefix; outcomes = (index, rounded best probability).")
ASSUMPTIONS = ["avoid_goingback=False (first-order transition model, as the statement requires)", "probabilities compared to 1e-9 relative",
               "ties: any optimal walk is accepted"]

NOISE = [{"obs_noise": 1.0}, {"obs_noise": 0.5, "dist_noise": 2.0}]


def configs():
    for fam in ms.FAMS:
        for cut in ms.CUTS:
            for ni, noise in enumerate(NOISE):
                c = {"fam": fam, "ne": False, "avoid": False}
                c.update(ms.CUTS[cut])
                c.update(noise)
                yield c


def space(tier):
    return {"graphs": "all on 2-3 nodes x {GENERIC, GRID}; 4 nodes with <= %d edges; 26 named 4-12 node graphs" % (3 if tier == "quick" else 6),
            "trace_length": "<= 3 (n<=3 and named), <= %d (4-node family)" % (2 if tier == "quick" else 3),
            "observation_alphabet": {k: v[:4] for k, v in al.OBS.items()}, "families": ms.FAMS, "cutoffs": ms.CUTS, "noise": NOISE,
            "labels": ["int", "str (n<=3)"], "backends": ["inmem", "sqlite (finite-radius configurations)"]}


def cases(tier):
    for gs in ms.graph_slice("n3"):
        yield {"gs": list(gs), "labels": "int", "T": 3, "backends": ["inmem"], "noise": [0, 1] if (gs[0] == "GENERIC" or tier == "thorough") else [0]}
    for gs in ms.graph_slice("n3"):
        yield {"gs": list(gs), "labels": "str", "T": 2 if tier == "quick" else 3, "backends": ["inmem"], "noise": [0]}
    for gs in ms.graph_slice("n3"):
        yield {"gs": list(gs), "labels": "int", "T": 3 if (gs[1] == 2 or tier == "thorough") else 2, "backends": ["sqlite"], "finite_only": True}
    for name, pos, g in ms.special_graphs():
        yield {"gs": ms.explicit(g), "pos": pos, "labels": "int", "T": 3, "backends": ["inmem"], "name": name}
    # the same oracle with the package logger at DEBUG (stopped candidates are then kept in the lattice; they must stay
    # inadmissible): node-and-edge states, where the end-point rule produces such candidates
    for gs in ms.graph_slice("n3"):
        yield {"gs": list(gs), "labels": "int", "T": 3, "backends": ["inmem"], "noise": [0], "debug": True}
    # a matcher object that was used for another trace before: a plain match() must start afresh
    for name, pos, g in ms.special_graphs():
        yield {"gs": ms.explicit(g), "pos": pos, "labels": "int", "T": 3, "backends": ["inmem"], "name": name, "noise": [0], "reuse": True}
    for gs in ms.graph_slice("n3"):
        if gs[0] == "GENERIC" or tier == "thorough":
            yield {"gs": list(gs), "labels": "int", "T": 3, "backends": ["inmem"], "noise": [0], "reuse": True, "only_T": 2}
    lvl = "n4e3" if tier == "quick" else "n4e6"
    for gs in ms.graph_slice(lvl):
        if gs[1] == 4:
            yield {"gs": list(gs), "labels": "int", "T": 2 if tier == "quick" else 3, "backends": ["inmem"], "noise": [0] if tier == "quick" else [0, 1]}
    if tier == "thorough":
        for gs in ms.graph_slice("n3"):
            yield {"gs": list(gs), "labels": "int", "T": 4, "backends": ["inmem"], "only_T": 4}


def impl_score_walk(m, graph, walk, trace):
    """Score a model walk through the implementation's own first()/next() (conformance of the model)."""
    def seg(s):
        if len(s) == 1:
            return Segment(s[0], graph[s[0]][0])
        return Segment(s[0], graph[s[0]][0], s[1], graph[s[1]][0])
    s0 = seg(walk[0])
    if len(walk[0]) == 2:
        d, pi, ti = m.map.distance_point_to_segment(trace[0], s0.p1, s0.p2)
        s0.pi, s0.ti = pi, ti
    else:
        d = m.map.distance(trace[0], s0.p1)
    cur = m.matching.first(0, s0, Segment("O0", trace[0]), m, d)
    for k in range(1, len(walk)):
        if cur is None:
            return None
        cur = cur.next(seg(walk[k]), Segment(f"O{k}", trace[k]), obs=k)
    return None if cur is None or cur.stop else cur.logprob


def judge(m, res, ref, model, trace):
    """-> list of messages (empty = agrees with the all-walks reference)"""
    msgs = []
    if isinstance(res, Exception):
        return [f"match raised {res!r}"]
    if not (isinstance(res, tuple) and len(res) == 2):
        return [f"match returned {res!r}"]
    states, idx = res
    lb = m.lattice_best
    if ref["last"] == -1:
        if not (states == [] and idx == 0):
            msgs.append(f"no admissible start candidate exists, but match returned {(states, idx)}")
        return msgs
    if not states or not lb:
        return [f"match returned {(states, idx)} although the walk {ref['walks'][0]} explains observations 0..{ref['last']} "
                f"with log-probability {ref['best']}"]
    if idx != ref["last"]:
        msgs.append(f"returned index {idx}, the longest prefix some admissible walk explains ends at {ref['last']}")
        return msgs
    b = ref["best"]
    tol = 1e-9 * max(1.0, abs(b))
    if abs(lb[-1].logprob - b) > tol:
        msgs.append(f"best log-probability {lb[-1].logprob} != maximum over all admissible walks {b} (e.g. {ref['walks'][0]})")
    walk = tuple(state_of(e) for e in lb)
    wp = model.walk_prob(walk, trace)
    if wp is None:
        msgs.append(f"returned walk {walk} is not an admissible walk of the model")
    elif abs(wp - b) > tol:
        msgs.append(f"returned walk {walk} has model log-probability {wp}, the maximum is {b} (e.g. {ref['walks'][0]})")
    live = [e.logprob for e in m.lattice[idx].values(0) if not e.stop]
    if not live or abs(max(live) - b) > tol:
        msgs.append(f"best live entry of lattice column {idx} is {max(live) if live else None}, the maximum over all walks is {b}")
    return msgs


def run_case(case):
    res = dict(n=0, st=0, tr=0, tv=0, nt=0, out=[], v=[], k=[])
    outs = set()
    gs = case["gs"]
    graph = ms.build_graph(gs if isinstance(gs, dict) else tuple(gs), labels=case.get("labels", "int"))
    pos = case.get("pos") or (gs[0] if not isinstance(gs, dict) else "GENERIC")
    obs = al.OBS[pos][:4]
    if "trace" in case:
        traces = [[tuple(p) for p in case["trace"]]]
        cfgs = [case["cfg"]]
    else:
        T = case["T"]
        traces = [t for t in al.traces(obs, case.get("only_T", 1), T)]
        cfgs = [c for c in configs() if NOISE.index({k: c[k] for k in c if k in ("obs_noise", "dist_noise")}) in case.get("noise", [0, 1])]
        if case.get("finite_only"):
            # SQLite runs decide the finite-radius, edge-state configurations without the D2 caveat
            cfgs = [c for c in cfgs if c.get("max_dist") and c["obs_noise"] == 1.0 and c["fam"] != "SN"]
    egraph = ms.explicit(graph)
    if case.get("debug"):
        cfgs = [c for c in cfgs if c["fam"] == "SN"]
        ms.set_debug(True)
    for backend in case["backends"]:
        mp = maps.inmem(graph) if backend == "inmem" else maps.sqlite(graph)
        try:
            for trace in traces:
                for cfg in cfgs:
                    res["n"] += 1
                    m = ms.make_matcher(mp, cfg)
                    try:
                        if case.get("reuse"):
                            # the matcher object has already been used for ANOTHER trace (the reversed one, shifted)
                            m.match([(p[0] + 0.37, p[1] - 0.21) for p in trace[::-1]] + [trace[0]])
                        r = m.match(list(trace))
                    except Exception as exc:  # noqa
                        r = exc
                    model = Model(graph, cfg)
                    ref = model.all_walks(trace)
                    res["st"] += ref["nstates"]
                    res["tr"] += ref["ntrans"]
                    if ref["nprobs"] >= 2:
                        res["nt"] += 1
                    msgs = judge(m, r, ref, model, trace)
                    mini = {"gs": egraph, "pos": pos, "labels": case.get("labels", "int"), "trace": trace, "cfg": cfg, "backends": [backend]}
                    if case.get("debug"):
                        mini["debug"] = True
                    if case.get("reuse"):
                        mini["reuse"] = True
                    if msgs and backend == "inmem" and model.only_edges and model.max_dist_init != float("inf"):
                        # D2 predicate: in-memory start candidates = edges whose START NODE is inside the box of
                        # half-width max_dist_init around the first observation
                        r0 = model.max_dist_init
                        y0, x0 = trace[0][0], trace[0][1]
                        # (a start node within rounding of a box side may fall on either side: both readings are tried)
                        for eps in (-1e-9, 1e-9):
                            allowed = {(a, b) for (a, b) in model.edges
                                       if abs(graph[a][0][0] - y0) <= r0 + eps and abs(graph[a][0][1] - x0) <= r0 + eps}
                            if allowed == set(model.edges):
                                continue
                            ref2 = model.all_walks(trace, start_allowed=allowed)
                            if not judge(m, r, ref2, model, trace):
                                res["k"].append({"id": "D2", "case": mini,
                                                 "msg": f"start candidates hidden by the in-memory edge pre-filter: {sorted(set(model.edges) - allowed)}; "
                                                        f"result agrees with the optimum over the remaining start set; " + msgs[0]})
                                msgs = []
                                break
                    for msg in msgs[:2]:
                        res["v"].append({"msg": f"{backend} {al.describe_graph(graph)} trace {trace} cfg {cfg}: {msg}", "case": mini})
                    # conformance of the model: one optimal walk through the implementation's own scoring
                    if ref["last"] >= 0 and not isinstance(r, Exception):
                        w = ref["walks"][0]
                        try:
                            ms.set_debug(False)
                            ip = impl_score_walk(ms.make_matcher(mp, cfg), graph, w, trace)
                            ms.set_debug(bool(case.get("debug")))
                        except Exception as exc:  # noqa
                            ip = exc
                        res["tv"] += 1
                        if ip is None or isinstance(ip, Exception) or abs(ip - ref["best"]) > 1e-9 * max(1.0, abs(ref["best"])):
                            res["v"].append({"msg": f"{al.describe_graph(graph)} trace {trace} cfg {cfg}: the model's optimal walk {w} "
                                                    f"(model log-probability {ref['best']}) is scored {ip!r} by the implementation's first()/next()",
                                             "case": mini})
                    outs.add((ref["last"], None if ref["best"] is None else round(ref["best"], 6)))
        finally:
            maps.close(mp)
            ms.set_debug(False)
    res["out"] = sorted(outs, key=repr)
    return res


def describe(case):
    gs = case["gs"]
    g = ms.build_graph(gs if isinstance(gs, dict) else tuple(gs), labels=case.get("labels", "int"))
    d = {"graph": al.describe_graph(g), "backends": case["backends"]}
    for k in ("trace", "cfg", "T", "name"):
        if k in case:
            d[k] = case[k]
    return d
