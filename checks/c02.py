"""C02 — reported probability is the model probability of the reported path.

One-shot runs over the full configuration slice plus histories (match prefix / extend / widen) on one matcher;
oracle = replay of lattice_best in the documented model (mc.refmodel.replay), every reported field."""
from mc import bind  # noqa: F401
from mc import mspace as ms
from mc.refmodel import replay
from checks import _pathspace as ps
import leuvenmapmatching.matcher.base as mbase

ID = "C02"
TITLE = "Reported probability is the model probability of the reported path"
MANIFEST = {
    "text": "For every graph on 2-3 placed nodes (two alphabets), every 4-node graph with <= 3 edges (thorough <= 4), 26 named 4-12 node "
            "graphs (chains, cycles, star, complete) whose traces force non-emitting runs of depth 2-3, every trace of length <= 3 "
            "(4 thorough) and a configuration list covering 3 families x non-emitting on/off x going-back penalties on/off x cut-offs x "
            "widths {None,1,2} x separate non-emitting noise, the best path returned by the real matcher is re-scored state by state in "
            "the documented model: logprob, emitting/non-emitting split, dist_obs, length, nearest point, relative position, and for "
            "the distance family d_o, d_s, transition and emission terms, with the penalties of the actual predecessor on the path. "
            "The same after every operation of every history of depth <= 2 (3 on the named graphs; 3 everywhere in the thorough tier) "
            "over {match prefix, extend, widen}.",
    "note": "Trusted: mc/refmodel.py replay model (validated on 1e7 design-time runs and by a perturbation test), mc/refgeom.py. Witness "
            "points of non-unique segment-segment minima are taken from the implementation after validating that they realise the "
            "minimum. Known findings D14 (stale child score after widening) and D22 (stale successor scores after continue_with_distance improved "
            "an entry in place; evaluated with a harness-side probe around continue_with_distance and a replay that re-synchronises after "
            "each mismatch) are recognised only by their exact predicates.",
    "technique": "bounded-exhaustive enumeration of inputs x configurations and of operation histories, replay of the implementation's path in a reference model",
}
MANIFEST["text"] += " " + (
    'Added after the seeding waves: the geometry fields of path states (edge_m.pi, edge_o.pi, dist_obs) are judged here too; a matcher object re-used for another trace (operation N); the recorded input of known finding D14 is part of every run; jump histories match / continue_with_distance / extend with a finite max_dist on the named graphs (a jump is a not-connected transition of the documented model).')
BUDGET = {"quick": 900, "thorough": 3000}
RULE = ("cases = (graph) for one-shot runs and (graph) for histories; states = path states re-scored, transitions = path steps "
        "re-scored, traces validated = best paths replayed in the model; non-trivial = the path contains a non-emitting state, a "
        "going-back / not-connected penalty, or was produced after a widening/extension; outcomes = (index, path shape).")
ASSUMPTIONS = ["relative tolerance 1e-9 on every compared number", "planar metric (the latitude-longitude geometry is covered by C05/C14/C15)"]

C = ps.cfg
MAIN = [C(f, ne, av) for f in ms.FAMS for ne in (False, True) for av in (False, True)] + \
       [C(f, True, True, cut) for f in ms.FAMS for cut in ("md1.5", "mpn0.3", "md2.5i1.1")] + \
       [C(f, True, True, "none", w) for f in ms.FAMS for w in (1, 2)] + [C(f, False, True, "none", 1) for f in ms.FAMS] + \
       [C(f, True, True, "none", None, obs_noise_ne=3.0) for f in ms.FAMS] + \
       [C("D", True, True, "none", None, dist_noise=2.0, dist_noise_ne=0.7, obs_noise=0.5), C("S", True, True, "mpn0.3", 1, obs_noise=0.5, obs_noise_ne=2.0),
        C("D", True, True, "none", None, ne_factor=0.5)] + \
       [C(f, True, True, "none", None, maxnb=1) for f in ms.FAMS] + [C("D", True, True, "none", 2, maxnb=2)]
N4 = [C(f, True, True) for f in ms.FAMS] + [C("D", True, True, "none", 1), C("S", True, True, "none", 1), C("D", True, False, "mpn0.3")]
JUMP = [C("D", False, True, "md1.5"), C("S", True, True, "md1.5", 1), C("D", True, True, "md1.5", 2), C("S", False, False, "md1.5")]
HIST = [C("D", True, True, "none", 1), C("S", True, True, "none", 1), C("SN", True, True, "none", 1), C("D", False, True, "none", 1)]


def cfgs_for(sl):
    return MAIN if sl in ("n3", "special") else N4


def space(tier):
    return {"one_shot_configurations_n3_and_named": len(MAIN), "configurations_n4": len(N4), "history_configurations": HIST,
            "history_depth": "2 (3 on named graphs)" if tier == "quick" else 3, "trace_length": 3 if tier == "quick" else 4}


D14_EXAMPLE = {"kind": "hist", "gs": {"graph": {"0": [[0.03, 0.01], [1, 2, 3]], "1": [[0.11, 2.07], [3]], "2": [[2.05, 0.13], []],
                                                 "3": [[1.93, 2.21], [0]]}}, "pos": "GENERIC", "slice": "hist",
               "trace": [[0.17, 1.12], [0.21, 0.34], [1.21, 2.9]], "cfg": {"fam": "D", "ne": True, "avoid": True, "width": 1},
               "hist": [["M", 3], ["W", 2]]}


def cases(tier):
    for c in ps.cases(tier, with_hist=True):
        c["tier"] = tier
        yield c
    # a matcher object re-used for another trace (operation N = plain match of the reversed trace on the same object)
    for hist in ([["M", 9], ["N"]], [["M", 2], ["X", 9], ["N"]]):
        for name, pos, g in ms.special_graphs():
            yield {"kind": "hist", "gs": ms.explicit(g), "pos": pos, "slice": "hist-special", "name": name, "T": 3, "hist": hist, "tier": tier}
        for gs in ms.graph_slice("n3"):
            if gs[0] == "GENERIC" and bin(gs[2]).count("1") >= 3:
                yield {"kind": "hist", "gs": list(gs), "slice": "hist", "T": 3, "hist": hist, "tier": tier}
    # after an early stop: jump with continue_with_distance(), then extend - the states reached through a jump report model
    # values as well (a jump is a not-connected transition of the documented model)
    for hist in ([["M", 9], ["C", None], ["X", 9]], [["M", 9], ["C", 1.0], ["X", 9]]):
        for name, pos, g in ms.special_graphs():
            yield {"kind": "hist", "gs": ms.explicit(g), "pos": pos, "slice": "hist-special", "name": name, "T": 3, "hist": hist, "tier": tier, "jump": True}
    # the recorded input of known finding D14 (4 nodes, 5 edges, widths 1 -> 2) is part of every run
    yield dict(D14_EXAMPLE, tier=tier)
    if tier == "thorough":
        # the 4-node family on which D14 lives: widen after a width-1 match
        for gs in ms.graph_slice("n4e6"):
            if gs[1] == 4 and gs[0] == "GENERIC" and bin(gs[2]).count("1") >= 4:
                yield {"kind": "hist", "gs": list(gs), "slice": "hist", "T": 3, "tier": tier, "only_widen": True}


# Harness-side probe (no source hook): which lattice entries were improved IN PLACE by a jump candidate during
# continue_with_distance() - needed to evaluate the predicate of known finding D22 exactly.
_orig_cwd = mbase.BaseMatcher.continue_with_distance


def _probe_cwd(self, *a, **kw):
    before = {}
    if self.lattice:
        before = {id(e): e.logprob for col in self.lattice.values() for layer in col.o for e in layer.values()}
    try:
        return _orig_cwd(self, *a, **kw)
    finally:
        imp = getattr(self, "_verif_improved", None) or set()
        if self.lattice:
            for col in self.lattice.values():
                for layer in col.o:
                    for e in layer.values():
                        if id(e) in before and e.logprob > before[id(e)]:
                            imp.add(id(e))
        self._verif_improved = imp


mbase.BaseMatcher.continue_with_distance = _probe_cwd


def judge(m, r, graph, trace, c, unique, ctx):
    if isinstance(r, Exception):
        return [(None, f"raised {r!r}")] if not ctx["expand"] else []
    if ctx.get("op") and ctx["op"][0] == "C":
        return []       # continue_with_distance() returns nothing and does not rebuild lattice_best: no path is reported
    if not (isinstance(r, tuple) and len(r) == 2) or not m.lattice_best:
        return []
    out = []
    jumped = any(op[0] == "C" for op in ctx.get("hist") or [])
    viols, nstates = replay(m, trace, ms.kind_of(c), resync=jumped)
    lb = m.lattice_best
    if ctx["expand"] or any(e.obs_ne for e in lb) or any(a.edge_m.label != b.edge_m.label and a.edge_m.l2 != b.edge_m.l1 for a, b in zip(lb, lb[1:])):
        out.append(("NT", ""))
    for tag, msg in viols:
        if tag not in ("score", "geom"):
            continue        # (edge_m.pi / edge_o.pi / dist_obs are observation points of C02 as well)
        fid = None
        if ctx["expand"] and "reported logprob" in msg:
            # D14 predicate: after a widening/extension round, the mismatching state's predecessor on the path is currently
            # postponed and the reported value is LOWER than the model value
            j = int(msg[1:msg.index("]")])
            rep = float(msg.split("reported logprob ")[1].split(" ")[0])
            mod = float(msg.split("!= model ")[1].split(" ")[0])
            if j > 0 and m.expand_now >= 1 and lb[j - 1].delayed > m.expand_now and rep < mod:
                fid = "D14"
            # D22 predicate: the history contains continue_with_distance(), the predecessor on the path was improved in
            # place by a jump candidate during that call (probe above), and the reported value is LOWER than what the
            # predecessor's reported value plus this step gives (the replay re-synchronises after every mismatch, so a
            # mismatch names exactly one stale link)
            # (with history-dependent terms - going-back penalties, accumulated distances of the distance family inside
            #  non-emitting runs - the replaced predecessor chain also changes the step term itself, so the stale value can
            #  be off in either direction)
            hist_dep = bool(c.get("avoid")) or (c.get("fam") == "D" and c.get("ne"))
            if jumped and j > 0 and id(lb[j - 1]) in (getattr(m, "_verif_improved", None) or ()) and (rep < mod or hist_dep):
                fid = "D22"
        if fid is None and jumped and msg.startswith("[") and ("emitting/non-emitting parts" in msg or "d_o" in msg or "d_s" in msg or "lpt" in msg or "lpe" in msg or "transition/emission terms" in msg):
            # the other score fields of the same stale entry (computed in the same step from the old predecessor value)
            j = int(msg[1:msg.index("]")])
            if j > 0 and id(lb[j - 1]) in (getattr(m, "_verif_improved", None) or ()):
                fid = "D22"
        out.append((fid, msg))
    return out


def run_case(case):
    res = dict(n=0, st=0, tr=0, tv=0, nt=0, out=[], v=[], k=[])
    depth = 3 if (case.get("tier") == "thorough" or case.get("slice") == "hist-special") else 2
    if case.get("only_widen") and "hist" not in case:
        # fixed histories [M(3), W(2)] and [M(3), W(2), W(3)] on every trace of the slice
        out = res
        for hist in ([["M", 3], ["W", 2]], [["M", 3], ["W", 2], ["W", 3]], [["M", 2], ["W", 2], ["X", 3]]):
            r = ps.run(dict(case, hist=hist), cfgs_for, judge, dict(n=0, st=0, tr=0, tv=0, nt=0, out=[], v=[], k=[]), hist_cfgs=HIST, hist_depth=depth)
            for key in ("n", "st", "tr", "tv", "nt"):
                out[key] += r[key]
            out["v"] += r["v"]
            out["k"] += r["k"]
            out["out"] = sorted(set(map(repr, out["out"])) | set(map(repr, r["out"])))[:500]
        return out
    return ps.run(case, cfgs_for, judge, res, hist_cfgs=(JUMP if case.get("jump") else HIST), hist_depth=depth)


def describe(case):
    return {k: case[k] for k in case if k != "tier"}
