"""C02 — reported probability is the model probability of the reported path.

One-shot runs over the full configuration slice plus histories (match prefix / extend / widen) on one matcher;
oracle = replay of lattice_best in the documented model (mc.refmodel.replay), every reported field."""
from mc import bind  # noqa: F401
from mc import mspace as ms
from mc.refmodel import replay
from checks import _pathspace as ps

ID = "C02"
TITLE = "Reported probability is the model probability of the reported path"
MANIFEST = {
    "text": "For every graph on 2-3 placed nodes (two alphabets), every 4-node graph with <= 3 edges (thorough <= 4), 26 named 4-12 node "
            "graphs (chains, cycles, star, complete) whose traces force non-emitting runs of depth 2-3, every trace of length <= 3 "
            "(4 thorough) and a configuration list covering 3 families x non-emitting on/off x going-back penalties on/off x cut-offs x "
            "widths {None,1,2} x separate non-emitting noise, the best path returned by the real matcher is re-scored state by state in "
            "the documented model: logprob, emitting/non-emitting split, dist_obs, length, nearest point, relative position, and for "
            "the distance family d_o, d_s, transition and emission terms, with the penalties of the actual predecessor on the path. "
            "The same after every operation of every history of depth <= 2 (3 on the named graphs; 3 everywhere in the thorough tier) "
            "over {match prefix, extend, widen}.",
    "note": "Trusted: mc/refmodel.py replay model (validated on 1e7 design-time runs and by a perturbation test), mc/refgeom.py. Witness "
            "points of non-unique segment-segment minima are taken from the implementation after validating that they realise the "
            "minimum. Known finding D14 (stale child score after widening) is recognised only by its exact predicate.",
    "technique": "bounded-exhaustive enumeration of inputs x configurations and of operation histories, replay of the implementation's path in a reference model",
}
MANIFEST["text"] += " " + (
    'Added after the seeding waves: the geometry fields of path states (edge_m.pi, edge_o.pi, dist_obs) are judged here too; a matcher object re-used for another trace (operation N); the recorded input of known finding D14 is part of every run.')
BUDGET = {"quick": 420, "thorough": 3000}
RULE = ("cases = (graph) for one-shot runs and (graph) for histories; states = path states re-scored, transitions = path steps "
        "re-scored, traces validated = best paths replayed in the model; non-trivial = the path contains a non-emitting state, a "
        "going-back / not-connected penalty, or was produced after a widening/extension; outcomes = (index, path shape).")
ASSUMPTIONS = ["relative tolerance 1e-9 on every compared number", "planar metric (the latitude-longitude geometry is covered by C05/C14/C15)"]

C = ps.cfg
MAIN = [C(f, ne, av) for f in ms.FAMS for ne in (False, True) for av in (False, True)] + \
       [C(f, True, True, cut) for f in ms.FAMS for cut in ("md1.5", "mpn0.3", "md2.5i1.1")] + \
       [C(f, True, True, "none", w) for f in ms.FAMS for w in (1, 2)] + [C(f, False, True, "none", 1) for f in ms.FAMS] + \
       [C(f, True, True, "none", None, obs_noise_ne=3.0) for f in ms.FAMS] + \
       [C("D", True, True, "none", None, dist_noise=2.0, dist_noise_ne=0.7, obs_noise=0.5), C("S", True, True, "mpn0.3", 1, obs_noise=0.5, obs_noise_ne=2.0),
        C("D", True, True, "none", None, ne_factor=0.5)] + \
       [C(f, True, True, "none", None, maxnb=1) for f in ms.FAMS] + [C("D", True, True, "none", 2, maxnb=2)]
N4 = [C(f, True, True) for f in ms.FAMS] + [C("D", True, True, "none", 1), C("S", True, True, "none", 1), C("D", True, False, "mpn0.3")]
HIST = [C("D", True, True, "none", 1), C("S", True, True, "none", 1), C("SN", True, True, "none", 1), C("D", False, True, "none", 1)]


def cfgs_for(sl):
    return MAIN if sl in ("n3", "special") else N4


def space(tier):
    return {"one_shot_configurations_n3_and_named": len(MAIN), "configurations_n4": len(N4), "history_configurations": HIST,
            "history_depth": "2 (3 on named graphs)" if tier == "quick" else 3, "trace_length": 3 if tier == "quick" else 4}


D14_EXAMPLE = {"kind": "hist", "gs": {"graph": {"0": [[0.03, 0.01], [1, 2, 3]], "1": [[0.11, 2.07], [3]], "2": [[2.05, 0.13], []],
                                                 "3": [[1.93, 2.21], [0]]}}, "pos": "GENERIC", "slice": "hist",
               "trace": [[0.17, 1.12], [0.21, 0.34], [1.21, 2.9]], "cfg": {"fam": "D", "ne": True, "avoid": True, "width": 1},
               "hist": [["M", 3], ["W", 2]]}


def cases(tier):
    for c in ps.cases(tier, with_hist=True):
        c["tier"] = tier
        yield c
    # a matcher object re-used for another trace (operation N = plain match of the reversed trace on the same object)
    for hist in ([["M", 9], ["N"]], [["M", 2], ["X", 9], ["N"]]):
        for name, pos, g in ms.special_graphs():
            yield {"kind": "hist", "gs": ms.explicit(g), "pos": pos, "slice": "hist-special", "name": name, "T": 3, "hist": hist, "tier": tier}
        for gs in ms.graph_slice("n3"):
            if gs[0] == "GENERIC" and bin(gs[2]).count("1") >= 3:
                yield {"kind": "hist", "gs": list(gs), "slice": "hist", "T": 3, "hist": hist, "tier": tier}
    # the recorded input of known finding D14 (4 nodes, 5 edges, widths 1 -> 2) is part of every run
    yield dict(D14_EXAMPLE, tier=tier)
    if tier == "thorough":
        # the 4-node family on which D14 lives: widen after a width-1 match
        for gs in ms.graph_slice("n4e6"):
            if gs[1] == 4 and gs[0] == "GENERIC" and bin(gs[2]).count("1") >= 4:
                yield {"kind": "hist", "gs": list(gs), "slice": "hist", "T": 3, "tier": tier, "only_widen": True}


def judge(m, r, graph, trace, c, unique, ctx):
    if isinstance(r, Exception):
        return [(None, f"raised {r!r}")] if not ctx["expand"] else []
    if not (isinstance(r, tuple) and len(r) == 2) or not m.lattice_best:
        return []
    out = []
    viols, nstates = replay(m, trace, ms.kind_of(c))
    lb = m.lattice_best
    if ctx["expand"] or any(e.obs_ne for e in lb) or any(a.edge_m.label != b.edge_m.label and a.edge_m.l2 != b.edge_m.l1 for a, b in zip(lb, lb[1:])):
        out.append(("NT", ""))
    for tag, msg in viols:
        if tag not in ("score", "geom"):
            continue        # (edge_m.pi / edge_o.pi / dist_obs are observation points of C02 as well)
        fid = None
        if ctx["expand"] and "reported logprob" in msg:
            # D14 predicate: after a widening/extension round, the mismatching state's predecessor on the path is currently
            # postponed and the reported value is LOWER than the model value
            j = int(msg[1:msg.index("]")])
            rep = float(msg.split("reported logprob ")[1].split(" ")[0])
            mod = float(msg.split("!= model ")[1].split(" ")[0])
            if j > 0 and m.expand_now >= 1 and lb[j - 1].delayed > m.expand_now and rep < mod:
                fid = "D14"
        out.append((fid, msg))
    return out


def run_case(case):
    res = dict(n=0, st=0, tr=0, tv=0, nt=0, out=[], v=[], k=[])
    depth = 3 if (case.get("tier") == "thorough" or case.get("slice") == "hist-special") else 2
    if case.get("only_widen") and "hist" not in case:
        # fixed histories [M(3), W(2)] and [M(3), W(2), W(3)] on every trace of the slice
        out = res
        for hist in ([["M", 3], ["W", 2]], [["M", 3], ["W", 2], ["W", 3]], [["M", 2], ["W", 2], ["X", 3]]):
            r = ps.run(dict(case, hist=hist), cfgs_for, judge, dict(n=0, st=0, tr=0, tv=0, nt=0, out=[], v=[], k=[]), hist_cfgs=HIST, hist_depth=depth)
            for key in ("n", "st", "tr", "tv", "nt"):
                out[key] += r[key]
            out["v"] += r["v"]
            out["k"] += r["k"]
            out["out"] = sorted(set(map(repr, out["out"])) | set(map(repr, r["out"])))[:500]
        return out
    return ps.run(case, cfgs_for, judge, res, hist_cfgs=HIST, hist_depth=depth)


def describe(case):
    return {k: case[k] for k in case if k != "tier"}
