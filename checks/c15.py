"""C15 — latitude-longitude matching agrees with planar matching (differential, form A)."""
import itertools
import math

from mc import bind  # noqa: F401
from mc import alphabet as al
from mc import maps
from mc import mspace as ms
from mc import refgeom as rg

ID = "C15"
TITLE = "Latitude-longitude matching agrees with planar matching"
MANIFEST = {
    "text": "Every graph on 2-3 placed nodes (GENERIC and GRID alphabets at 40 m per unit; thorough: 4-node graphs with <= 3 edges) and every "
            "trace of length <= 3 is placed at 5 anchors (equator, Leuven, southern hemisphere west, 59.9N near the antimeridian, 12N "
            "170W) by an azimuthal-equidistant map of the reference sphere and matched twice by the real code: on the latitude-longitude "
            "map with the trace in degrees, and on the locally projected planar map with the same parameters in metres; 3 families, "
            "emitting-only, with no cut-offs at all and with a generous finite initial radius. Same matched index, best log-probability "
            "equal within 1e-4 relative (+1e-6 absolute).",
    "note": "Trusted: mc/refgeom.py placement (independent of the library's geodesy). Street scale (<= 200 m extent), latitudes below 60 "
            "degrees as in the statement.",
    "technique": "bounded-exhaustive differential enumeration: every input executed in both metrics and compared",
}
MANIFEST["text"] += " " + (
    'Added after the seeding waves: maps with a zero-length road (two co-located nodes); the SQLite backend, freshly built and reopened (the metric is selected per map object). GRID inputs are run with the first-order model only (see DESIGN.md 11.4).')
BUDGET = {"quick": 900, "thorough": 3000}
RULE = ("states = (input, anchor, family, radius setting) pairs of runs compared, transitions = matcher executions, traces validated = "
        "pairs compared; non-trivial = both runs return a non-empty match with a finite probability; outcomes = (index, rounded "
        "planar probability).")
ASSUMPTIONS = ["relative tolerance 1e-4 (worst case measured at design time: 9e-6)"]
UNIT = 40.0
ANCHORS = [(0.0, 0.0), (50.86, 4.7), (-33.3, -70.1), (59.9, 178.5), (12.0, -170.0)]
CFGS = [dict(fam=f, ne=False, avoid=av, obs_noise=20.0, **extra) for f in ms.FAMS for av in (False, True)
        for extra in ({}, {"max_dist_init": 1.0e5})]


def space(tier):
    return {"anchors": ANCHORS, "metres_per_unit": UNIT, "configurations": CFGS, "trace_length": 3}


def cases(tier):
    for ai in range(len(ANCHORS)):
        for gs in ms.graph_slice("n3" if tier == "quick" else "n4e3"):
            yield {"gs": list(gs), "anchor": ai, "tier": tier}
        # the metric is selected per MAP OBJECT: the same comparison with the SQLite backend, freshly built and reopened
        if ai < 2:
            for gs in ms.graph_slice("n3"):
                if gs[0] == "GENERIC" and al.nedges(gs[2]) <= (2 if tier == "quick" else 6):
                    yield {"gs": list(gs), "anchor": ai, "tier": tier, "backend": "sqlite"}
        # maps with a zero-length road (two co-located nodes, e.g. a doubled node of an OSM extract)
        for mask in al.masks(3, max_edges=3 if tier == "quick" else None):
            yield {"gs": ["ZERO", 3, mask], "anchor": ai, "tier": tier}


def to_ll(anchor, p):
    d = math.hypot(p[0], p[1])
    if d == 0:
        return anchor
    return rg.sph_dest(anchor, math.degrees(math.atan2(p[1], p[0])), d)


def run_case(case):
    res = dict(n=0, st=0, tr=0, tv=0, nt=0, out=[], v=[], k=[])
    outs = set()
    anchor = ANCHORS[case["anchor"]]
    pos = case["gs"][0]
    g0 = ms.build_graph(tuple(case["gs"]))
    gp = {k: ((v[0][0] * UNIT, v[0][1] * UNIT), list(v[1])) for k, v in g0.items()}
    gl = {k: (to_ll(anchor, v[0]), list(v[1])) for k, v in gp.items()}
    if case.get("backend") == "sqlite":
        from leuvenmapmatching.map.sqlite import SqliteMap
        import os as _os
        m1 = maps.sqlite(gp, use_latlon=False, name="c15p")
        m2 = maps.sqlite(gl, use_latlon=True, name="c15l")
        d_ = maps.scratch()
        maps.close(m1)
        maps.close(m2)
        # reopened from the file: the stored metric flag must select the metric again
        mpp = SqliteMap.from_file(_os.path.join(d_, "c15p.sqlite"))
        mpl = SqliteMap.from_file(_os.path.join(d_, "c15l.sqlite"))
    else:
        mpp = maps.inmem(gp, use_latlon=False)
        mpl = maps.inmem(gl, use_latlon=True)
    obs = [(p[0] * UNIT, p[1] * UNIT) for p in al.OBS[pos][:4]]
    if "trace" in case:
        traces = [[tuple(p) for p in case["trace"]]]
        cfgs = [case["cfg"]]
    else:
        T = 3 if (case["gs"][1] <= 3) else 2
        traces = [list(t) for k in range(1, T + 1) for t in itertools.product(obs[:4] if k < 3 else obs[:3], repeat=k)]
        # The going-back-on-edge penalty compares two projected positions with a strict '<': on GRID inputs they are
        # exactly equal, so any rounding (in either metric) flips a finite penalty.  That discontinuity of the model is not
        # a property of the metric; GRID inputs are therefore run with the first-order model only (see DESIGN.md, C15).
        # slow sections: consecutive observations 2-6 m apart (0.05-0.15 units)
        slow = []
        for p_ in obs[:3]:
            q_ = (p_[0] + 0.12 * UNIT, p_[1] - 0.07 * UNIT)
            r_ = (p_[0] + 0.05 * UNIT, p_[1] + 0.04 * UNIT)
            slow += [[p_, q_], [p_, r_, q_], [obs[3], p_, q_]]
        traces = traces + slow
        cfgs = [c for c in CFGS if pos == "GENERIC" or not c["avoid"]]
        if case.get("backend") == "sqlite":
            cfgs = [c for c in cfgs if c["fam"] != "SN" and not c["avoid"]]
            traces = [t for t in traces if len(t) <= 2]
        if pos == "ZERO":
            traces = [t for t in traces if len(t) <= 2]
    for trace in traces:
        tl = [to_ll(anchor, p) for p in trace]
        for c in cfgs:
            r = []
            for mp, tr in ((mpp, trace), (mpl, tl)):
                m = ms.make_matcher(mp, c)
                try:
                    st, idx = m.match(list(tr))
                    r.append((idx if st else -1, float(m.lattice_best[-1].logprob) if m.lattice_best else None))
                except Exception as exc:  # noqa
                    r.append(("EXC", repr(exc)))
                res["n"] += 1
                res["tr"] += 1
            res["st"] += 1
            res["tv"] += 1
            a, b = r
            mini = {"gs": case["gs"], "anchor": case["anchor"], "trace": trace, "cfg": c}
            if case.get("backend"):
                mini["backend"] = case["backend"]
            where = f"{al.describe_graph(gp)} at anchor {anchor} trace {trace} cfg {c}"
            if a[0] == "EXC" or b[0] == "EXC" or a[0] != b[0]:
                res["v"].append({"msg": f"{where}: planar (index, logprob) = {a}, latitude-longitude = {b}", "case": mini})
            elif a[1] is not None and b[1] is not None:
                res["nt"] += 1
                if abs(a[1] - b[1]) > 1e-4 * abs(a[1]) + 1e-6:
                    res["v"].append({"msg": f"{where}: planar log-probability {a[1]}, latitude-longitude {b[1]} (relative difference "
                                            f"{abs(a[1] - b[1]) / max(1e-12, abs(a[1])):.2e})", "case": mini})
            elif (a[1] is None) != (b[1] is None):
                res["v"].append({"msg": f"{where}: planar {a}, latitude-longitude {b}", "case": mini})
            outs.add((a[0], None if not isinstance(a[1], float) else round(a[1], 4)))
    maps.close(mpp)
    maps.close(mpl)
    res["out"] = sorted(outs, key=repr)[:1000]
    res["v"] = res["v"][:20]
    return res


def describe(case):
    return {k: case[k] for k in case if k != "tier"}
