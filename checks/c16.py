"""C16 — invariance under relabelling, re-listing, axis swap, power-of-two scaling and translation (metamorphic)."""
import itertools

from mc import bind  # noqa: F401
from mc import alphabet as al
from mc import maps
from mc import mspace as ms
from mc.refmodel import replay
from checks import _pathspace as ps

ID = "C16"
TITLE = "Matching is invariant under relabelling and rigid motions of the plane"
MANIFEST = {
    "text": "For every graph on 2-3 placed nodes in both alphabets and 26 named 4-12 node graphs, every trace of the slice and 12 "
            "configurations (3 families x non-emitting on/off x {no cut-off, no width | max_dist+min_prob_norm, width 2}), the real "
            "matcher is run on the input and on every transformed input: relabellings (reversed integers, strings, strings in reverse "
            "lexical order), reversed node listing, the axis swap, scalings by 2^k for k in {-8,-3,3,10,20} of coordinates AND of "
            "obs_noise, obs_noise_ne, dist_noise, max_dist, max_dist_init, and (without width pruning) translations by (2^10,-2^10), "
            "(2^20,-2^20), (2^30,-2^30) for GRID inputs (exactly representable) and 2^10 for GENERIC inputs. Index and best probability "
            "must be unchanged (1e-9 relative), the path equal up to the renaming, or - where a transformation legitimately changes "
            "rounding or candidate order - an equally probable alternative established by replaying it in the reference model. "
            "Scales 2^-13 and below are explored separately and reported under known finding D11 (absolute tolerances).",
    "note": "Trusted: the transformations (exact in floating point for GRID inputs), mc/refmodel.py for tie-equivalence.",
    "technique": "bounded-exhaustive metamorphic enumeration: every input executed before and after each transformation",
}
MANIFEST["text"] += " " + (
    'Added after the seeding waves: integer labels rotated so that the falsy label 0 lands on interior nodes, a string relabelling that uses the empty string for one node; configurations whose initial radius is attained exactly along one axis by GRID nodes (a start node on a side of the search box); relabellings to large integers and tuples (equal labels that are distinct objects); configurations that continue an early-stopped match with continue_with_distance() and match(expand=True) (index and probability compared).')
BUDGET = {"quick": 900, "thorough": 3000}
RULE = ("states = (input, configuration, transformation) executions, transitions = matcher runs, traces validated = transformed "
        "results compared with the base result; non-trivial = the base match is non-empty; outcomes = base canonical results.")
ASSUMPTIONS = ["a translation by offset o is compared at relative tolerance 1e-9 + 256 ulp(o): projection points are absolute coordinates",
               "claimed range of scalings 2^-8 .. 2^20; translations only without width pruning (as in the statement)"]

SCALED = ("obs_noise", "obs_noise_ne", "dist_noise", "dist_noise_ne", "max_dist", "max_dist_init")
CFGS = [dict(fam=f, ne=ne, avoid=True, width=None, obs_noise=1.0) for f in ms.FAMS for ne in (False, True)] + \
       [dict(fam=f, ne=ne, avoid=True, width=2, obs_noise=1.0, max_dist=1.5, min_prob_norm=0.3) for f in ms.FAMS for ne in (False, True)] + \
       [dict(fam=f, ne=ne, avoid=True, width=None, obs_noise=1.0, max_dist=3.0, max_dist_init=2.0) for f, ne in (("S", False), ("D", True), ("SN", True))]
CFGS += [dict(fam=f, ne=ne, avoid=True, width=None, obs_noise=1.0, max_dist=1.5, jump=True) for f, ne in (("S", False), ("D", True))]
# (the last group: an initial radius that GRID nodes attain EXACTLY along one axis - a start node on a side of the search box -
#  so that an asymmetric treatment of the four sides shows under the axis swap)


def transforms(pos, width, extreme):
    T = []
    for lab in ("intrev", "str", "strrev"):
        T.append(("relabel-" + lab, {"labels": lab}))
    # integer labels rotated, so that the label 0 (falsy in Python) lands on another node, and a string relabelling that
    # uses the empty string for one node
    T.append(("relabel-rotate+2", {"rot": 2}))
    T.append(("relabel-rotate+1", {"rot": 1}))
    T.append(("relabel-str-with-empty", {"labels": "strempty"}))
    # labels whose equal values are distinct objects (large integers, tuples): identity must never stand in for equality
    T.append(("relabel-bigint", {"labels": "bigint"}))
    T.append(("relabel-tuple", {"labels": "tuple"}))
    T.append(("relist-reversed", {"relist": True}))
    T.append(("axis-swap", {"swap": True}))
    for k in (-8, -3, 3, 10, 20):
        T.append((f"scale-2^{k}", {"scale": 2.0 ** k}))
    if extreme:
        T.append(("scale-2^-20", {"scale": 2.0 ** -20, "extreme": True}))
        T.append(("scale-2^-13", {"scale": 2.0 ** -13, "extreme": True}))
    if width is None:
        offs = (2.0 ** 10, 2.0 ** 20, 2.0 ** 30) if pos == "GRID" else (2.0 ** 10,)
        for o in offs:
            T.append((f"translate-({o},{-o})", {"shift": o}))
    return T


def space(tier):
    return {"configurations": CFGS, "transformations": [t[0] for t in transforms("GRID", None, True)]}


def cases(tier):
    for gs in ms.graph_slice("n3" if tier == "quick" else "n4e3"):
        yield {"gs": list(gs), "tier": tier}
    for name, pos, g in ms.special_graphs():
        yield {"gs": ms.explicit(g), "pos": pos, "name": name, "tier": tier}


def apply_tf(graph, trace, cfg, tf):
    lab = tf.get("labels")
    ren = (lambda k: al.label(k, lab)) if lab else (lambda k: k)
    if tf.get("rot"):
        n_ = len(graph)
        ren = lambda k: (k + tf["rot"]) % n_   # noqa: E731
    s = tf.get("scale", 1.0)
    o = tf.get("shift", 0.0)

    def f(p):
        y, x = p[0] * s + o, p[1] * s - o
        return (x, y) if tf.get("swap") else (y, x)
    items = list(graph.items())
    if tf.get("relist"):
        items = items[::-1]
    g2 = {ren(k): (f(v[0]), [ren(x) for x in (v[1][::-1] if tf.get("relist") else v[1])]) for k, v in items}
    c2 = dict(cfg)
    for key in SCALED:
        if c2.get(key) is not None:
            c2[key] = c2[key] * s
    return g2, [f(p) for p in trace], c2, ren


def run_one(graph, trace, cfg):
    m = ms.make_matcher(maps.inmem(graph), {k: v for k, v in cfg.items() if k != "jump"})
    try:
        r = m.match(list(trace))
        if cfg.get("jump") and isinstance(r, tuple) and r[1] < len(trace) - 1:
            # the match stopped early: jump over the gap and continue (labels of jump candidates come from the spatial
            # query, not from a neighbour list)
            m.continue_with_distance()
            r = m.match(list(trace), expand=True)
        return m, ms.canon(m, r)
    except Exception as exc:  # noqa
        return m, ("EXC", repr(exc), None, ())


def trace_list(case, graph, pos):
    if "trace" in case:
        return [[tuple(p) for p in case["trace"]]]
    if isinstance(case["gs"], dict):
        P = [v[0] for v in graph.values()]
        near = [(p[0] + 0.13, p[1] - 0.11) if pos == "GENERIC" else (p[0] + 0.25, p[1] - 0.125) for p in P]
        n = len(P) - 1
        return ms.axis_traces(graph) + [[near[min(i, n)] for i in t] for t in ps.span_idx(n)]
    obs = [al.OBS[pos][0], al.OBS[pos][2], al.OBS[pos][3]]
    out = [list(t) for T in (1, 2) for t in itertools.product(obs, repeat=T)]
    out += [[obs[1]] + list(t) for t in itertools.product(obs, repeat=2)]
    if case.get("tier") == "thorough":
        out += [[obs[0]] + list(t) for t in itertools.product(obs, repeat=2)] + [[obs[2]] + list(t) for t in itertools.product(obs, repeat=2)]
    return out


def run_case(case):
    res = dict(n=0, st=0, tr=0, tv=0, nt=0, out=[], v=[], k=[])
    outs = set()
    graph = ps.graph_of(case)
    pos = ps.pos_of(case)
    egraph = ms.explicit(graph)
    cfgs = [case["cfg"]] if "cfg" in case else CFGS
    for trace in trace_list(case, graph, pos):
        for c in cfgs:
            mb, base = run_one(graph, trace, c)
            res["n"] += 1
            if base[0] != "EXC" and base[2]:
                res["nt"] += 1
            outs.add(base[:2])
            tfs = [(case["tf_name"], case["tf"])] if "tf" in case else transforms(pos, c.get("width"), extreme=(c.get("ne") and pos == "GRID"))
            for name, tf in tfs:
                g2, t2, c2, ren = apply_tf(graph, trace, c, tf)
                m2, got = run_one(g2, t2, c2)
                res["n"] += 1
                res["st"] += 1
                res["tr"] += 1
                res["tv"] += 1
                mini = {"gs": egraph, "pos": pos, "trace": trace, "cfg": c, "tf_name": name, "tf": tf}
                where = f"{al.describe_graph(graph)} trace {trace} cfg {c}, transformation {name}"
                msg = None
                # a translated input carries its projection points in absolute coordinates: their rounding (one ulp of the
                # offset) is the resolution at which "unchanged" can be observed
                import math as _m
                tol = 1e-9 + 256 * _m.ulp(tf.get("shift", 0.0)) if tf.get("shift") else 1e-9
                if base[0] == "EXC" or got[0] == "EXC":
                    if base[0] != got[0]:
                        msg = f"base result {base[:2]}, transformed {got[:2]}"
                else:
                    same_ip = got[0] == base[0] and (got[1] == base[1] or (got[1] is not None and base[1] is not None and
                                                                         abs(got[1] - base[1]) <= tol * max(1.0, abs(base[1]))))
                    if not same_ip:
                        msg = f"(index, probability) changes from {base[:2]} to {got[:2]}"
                    else:
                        def rk(key):
                            return tuple(ren(x) if i < len(key) - 2 else x for i, x in enumerate(key))
                        bk = [rk(k) for k, _ in base[3]]
                        gk = [k for k, _ in got[3]]
                        if bk != gk and c.get("jump"):
                            pass        # jump histories: index and probability only (known finding D22 makes path replays unreliable there)
                        elif bk != gk:
                            viols, _ = replay(m2, t2, ms.kind_of(c2), tol=tol)
                            if any(t == "score" for t, _ in viols):
                                msg = f"path changes from {bk} to {gk} and the new path is not an equally probable alternative"
                if msg:
                    if tf.get("extreme"):
                        res["k"].append({"id": "D11", "msg": f"{where}: {msg}", "case": mini})
                    else:
                        res["v"].append({"msg": f"{where}: {msg}", "case": mini})
    res["out"] = sorted(outs, key=repr)[:1000]
    res["v"] = res["v"][:20]
    return res


def describe(case):
    return {k: case[k] for k in case if k != "tier"}
