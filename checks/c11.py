"""C11 — spatial queries return exactly what lies within the radius.

Maps x frames (metric, magnitude) x backends x query locations x radii x max_elmt, compared with a full scan
using reference geometry."""
import itertools
import math
from fractions import Fraction as Fr

from mc import bind  # noqa: F401
from mc import refgeom as rg
from mc import maps

ID = "C11"
TITLE = "Spatial queries return exactly what lies within the radius"
MANIFEST = {
    "text": "For every map of a finite family (all 63 edge sets over 3 placed nodes incl. a long edge whose end points lie outside every "
            "radius, every single-edge map and three mixed maps over 5 nodes), in 6 frames (planar unit scale, planar projected metres "
            "~1e7, planar degrees, latitude-longitude at 3 anchors), on both backends, every query location of a 5x5 grid (as pair and as "
            "triple) x 9 radii (incl. exactly attained distances) x max_elmt in {None,1,2} is executed on the real nodes_closeto / "
            "edges_closeto and compared with a full scan by reference geometry: exact membership, distances, projection points, "
            "relative positions, ordering, truncation.",
    "note": "Trusted: mc/refgeom.py, SQLite R*Tree module as installed. In-memory maps are used without an index (rtree is not "
            "installed). Elements within rounding of the radius are accepted either way, except where the rational oracle proves "
            "d = r on exactly evaluable inputs (then the element must be absent). Known finding D2 (in-memory edge pre-filter) is "
            "recognised by its exact predicate only.",
    "technique": "bounded-exhaustive enumeration of maps x frames x queries against a full-scan reference model",
}
MANIFEST["text"] += " " + (
    'Added after the seeding waves: every SQLite map is built twice (bulk inserts; add_node/add_edge single inserts); a far-south latitude-longitude frame at 400 m per unit; radii derived from attained node distances (the element is inside by 1e-4 of the radius); the single-insert build offers every node with ignore_doubles=True and every label a second time with other coordinates (a tile-wise import; the content must stay that of the first offer); a third SQLite build with deferred indexing (no_index / no_commit inserts, then reindex_nodes / reindex_edges); and query - EDIT - query on the live in-memory map (the last node is moved by del_node / add_node / add_edge, a size-preserving edit, and every query is asked again).')
BUDGET = {"quick": 600, "thorough": 1500}
RULE = ("cases = (frame, map); each enumerates both backends x all query locations x radii x {pair, triple} x max_elmt. "
        "states = distinct (backend, map, frame, query, radius) configurations, transitions = API calls compared with the scan, "
        "non-trivial = the true answer is non-empty and does not contain every element (the radius separates elements), or an "
        "element lies exactly on the radius; outcomes = (kind, number returned, number of elements).")
ASSUMPTIONS = ["planar tolerance 1e-9 x extent, geodesic tolerance 5 cm on distances and 25 cm on positions",
               "max_elmt ties at equal distance may be broken either way"]

SHAPE = [(0.0, -10.0), (0.0, 10.0), (1.0, 0.5), (2.0, -1.0), (-1.5, 1.0)]
SHAPE2 = list(SHAPE)      # the shape after the edit of phase 1 (last node of the map moved)
QY = [-2.0, -0.5, 0.0, 1.0, 2.5]
QX = [-3.0, -1.0, 0.0, 0.5, 2.0]
RADII = [0.4, 0.5, 0.51, 1.0, 1.5, 1.6, 3.0, 5.0, 30.0]
LL_ANCHORS = {"latlon(50.86,4.7)": (50.86, 4.7), "latlon(-33.3,-70.1)": (-33.3, -70.1), "latlon(59.9,178.5)": (59.9, 178.5),
              "latlon(-54.8,-68.3)x400m": (-54.8, -68.3)}
LL_UNIT = {"latlon(-54.8,-68.3)x400m": 400.0}
FRAMES = ["unit", "metres1e7", "degrees"] + list(LL_ANCHORS)


def frame(name):
    """-> (use_latlon, f: shape point -> coordinates, unit)"""
    if name == "unit":
        return False, (lambda p: (p[0], p[1])), 1.0
    if name == "metres1e7":
        return False, (lambda p: (6007518.4 + p[0] * 10.0, -13607641.0 + p[1] * 10.0)), 10.0
    if name == "degrees":
        return False, (lambda p: (50.0 + p[0] * 1e-4, 4.0 + p[1] * 1e-4)), 1e-4
    a = LL_ANCHORS[name]

    def f(p):
        if p[0] == 0 and p[1] == 0:
            return a
        return rg.sph_dest(a, math.degrees(math.atan2(p[1], p[0])), math.hypot(p[0], p[1]) * LL_UNIT.get(name, 20.0))
    return True, f, LL_UNIT.get(name, 20.0)


def edge_sets(tier):
    out = []
    pairs3 = [(a, b) for a in range(3) for b in range(3) if a != b]
    for mask in range(1, 1 << len(pairs3)):
        out.append((3, [pairs3[i] for i in range(len(pairs3)) if mask >> i & 1]))
    pairs5 = [(a, b) for a in range(5) for b in range(5) if a != b]
    for e in pairs5:
        out.append((5, [e]))
    out.append((5, [(0, 1), (1, 0), (2, 3)]))
    out.append((5, [(0, 1), (2, 3), (3, 4), (4, 2), (2, 0)]))
    out.append((5, [(1, 0), (3, 2), (4, 0), (0, 4)]))
    out.append((5, pairs5))
    if tier == "thorough":
        pairs4 = [(a, b) for a in range(4) for b in range(4) if a != b]
        for mask in range(1, 1 << len(pairs4)):
            if bin(mask).count("1") <= 3:
                out.append((4, [pairs4[i] for i in range(len(pairs4)) if mask >> i & 1]))
    return out


def space(tier):
    return {"frames": FRAMES, "maps": len(edge_sets(tier)), "shape_nodes": SHAPE, "query_grid": [QY, QX], "radii_units": RADII,
            "max_elmt": [None, 1, 2], "backends": ["InMemMap (no index)", "SqliteMap (bulk inserts)", "SqliteMap (single inserts)", "SqliteMap (deferred index, reindex_nodes/reindex_edges)", "InMemMap after a size-preserving edit"], "location_forms": ["pair", "triple"]}


def cases(tier):
    es = edge_sets(tier)
    for fi, fr in enumerate(FRAMES):
        for gi in range(len(es)):
            yield {"frame": fr, "g": gi, "tier": tier}


def _exact_safe_node(q0, p0, r0):
    return rg.d2(rg.fpt(q0), rg.fpt(p0)) == Fr(r0) ** 2


def _exact_safe_edge(q0, a0, b0, r0):
    qq, t, dd = rg.proj_exact(q0, a0, b0)
    if dd != Fr(r0) ** 2:
        return False
    return t in (0, 1) or a0[0] == b0[0] or a0[1] == b0[1]


def run_case(case):
    res = dict(n=0, st=0, tr=0, tv=0, nt=0, out=[], v=[], k=[])
    outs = set()
    latlon, f, unit = frame(case["frame"])
    met = maps.Metric(latlon)
    n, es = edge_sets(case.get("tier", "quick"))[case["g"]] if "edges" not in case else (case["n"], [tuple(e) for e in case["edges"]])
    nodes = {i: f(SHAPE[i]) for i in range(n)}
    graph = {i: (nodes[i], [b for a, b in es if a == i]) for i in nodes}
    tol = 0.05 if latlon else 1e-9 * unit * 30 + 4 * math.ulp(max(max(abs(c) for c in p) for p in nodes.values()))
    ptol = 0.25 if latlon else tol
    backends = case.get("backends", ["inmem", "sqlite", "sqlite-single-inserts", "sqlite-deferred-index"])
    mps = {}
    if "inmem" in backends:
        mps["inmem"] = maps.inmem(graph, use_latlon=latlon)
    if "sqlite" in backends:
        mps["sqlite"] = maps.sqlite(graph, use_latlon=latlon)
    if "sqlite-single-inserts" in backends:
        # the same content through add_node / add_edge (per-row index maintenance) instead of the bulk path
        mps["sqlite-single-inserts"] = maps.sqlite(graph, use_latlon=latlon, name="s1", bulk=False)
    if "sqlite-deferred-index" in backends:
        mps["sqlite-deferred-index"] = maps.sqlite(graph, use_latlon=latlon, name="s2", bulk="deferred")
    queries = case.get("queries") or [(y, x) for y in QY for x in QX]
    radii = case.get("radii") or RADII
    forms = case.get("forms") or ["pair", "triple"]

    def sweep(mps, nodes, es, phase):
        for q0 in queries:
            q0 = tuple(q0)
            q = f(q0)
            dn = {k: met.d(q, p) for k, p in nodes.items()}
            de_ = {(a, b): met.p2s(q, nodes[a], nodes[b]) for a, b in es}
            # besides the fixed radii: radii just above an attained node distance (the element is inside by 1e-4 of the radius,
            # i.e. decimetres at kilometre scale - far outside the rounding band, yet close to the edge of the search box)
            derived = [] if "radii" in case else sorted({round(d * (1 + 1e-4) / unit, 12) for d in dn.values() if d > 0})[:3]
            for r0 in list(radii) + derived:
                r = r0 * unit
                for bname, mp in mps.items():
                    for form in forms:
                        loc = q if form == "pair" else (q[0], q[1], 1234.5)
                        mini = {"frame": case["frame"], "n": n, "edges": es, "queries": [q0], "radii": [r0], "forms": [form],
                                "backends": [bname], "phase": phase}
                        res["st"] += 1
                        # ---------------- nodes
                        sure = {k for k, d in dn.items() if d < r - tol}
                        maybe = {k for k, d in dn.items() if abs(d - r) <= tol}
                        forbidden = set()
                        if case["frame"] == "unit":
                            forbidden = {k for k in maybe if _exact_safe_node(q0, (SHAPE2 if phase else SHAPE)[k], r0)}
                        nontriv = (0 < len(sure) < len(dn)) or bool(maybe)
                        for kk in (None, 1, 2):
                            res["n"] += 1
                            res["tr"] += 1
                            try:
                                got = mp.nodes_closeto(loc, max_dist=r, max_elmt=kk)
                            except Exception as exc:  # noqa
                                res["v"].append({"msg": f"{bname}.nodes_closeto({loc},{r},{kk}) raised {exc!r}", "case": mini})
                                continue
                            res["tv"] += 1
                            msgs = []
                            labels = [x[1] for x in got]
                            if len(set(labels)) != len(labels):
                                msgs.append(f"duplicate elements {labels}")
                            ds = [x[0] for x in got]
                            if any(ds[i] > ds[i + 1] for i in range(len(ds) - 1)):
                                msgs.append(f"not sorted by distance: {ds}")
                            for x in got:
                                if x[1] not in dn:
                                    msgs.append(f"unknown node {x[1]}")
                                    continue
                                if abs(x[0] - dn[x[1]]) > tol:
                                    msgs.append(f"node {x[1]}: distance {x[0]} != true {dn[x[1]]}")
                                if tuple(x[2]) != tuple(nodes[x[1]]):
                                    msgs.append(f"node {x[1]}: location {x[2]} != {nodes[x[1]]}")
                            gs = set(labels)
                            if kk is None:
                                if not (sure <= gs <= (sure | maybe)):
                                    msgs.append(f"returned {sorted(gs)}, nodes below the radius are {sorted(sure)}"
                                                + (f" (on the radius within rounding: {sorted(maybe)})" if maybe else ""))
                                if gs & forbidden:
                                    msgs.append(f"node(s) {sorted(gs & forbidden)} lie exactly at distance {r} and are returned although "
                                                f"the query asks for distances below the radius")
                            else:
                                allowed = sure | maybe
                                want = min(kk, len(sure))
                                if not (gs <= allowed) or len(got) < want or len(got) > kk:
                                    msgs.append(f"max_elmt={kk}: returned {labels}, below the radius: {sorted(sure)}")
                                else:
                                    best = sorted(dn[k] for k in allowed)[:len(got)]
                                    if any(abs(a - b) > tol for a, b in zip(sorted(ds), best)):
                                        msgs.append(f"max_elmt={kk}: returned distances {ds} are not the {len(got)} smallest {best}")
                            for m in msgs[:3]:
                                res["v"].append({"msg": f"{bname}.nodes_closeto({loc}, max_dist={r}, max_elmt={kk}) [{case['frame']}]: {m}",
                                                 "case": mini})
                            outs.add(("n", kk, len(got), len(dn)))
                        # ---------------- edges
                        esure = {e for e, (d, _, _) in de_.items() if d < r - tol}
                        emaybe = {e for e, (d, _, _) in de_.items() if abs(d - r) <= tol}
                        eforb = set()
                        if case["frame"] == "unit":
                            eforb = {e for e in emaybe if _exact_safe_edge(q0, (SHAPE2 if phase else SHAPE)[e[0]], (SHAPE2 if phase else SHAPE)[e[1]], r0)}
                        # D2 predicate: edges within the radius whose start node lies outside the enclosing box
                        d2_miss = {e for e in esure | emaybe if met.in_box(q, r, nodes[e[0]], tol) == -1}
                        d2_either = {e for e in esure | emaybe if met.in_box(q, r, nodes[e[0]], tol) == 0}
                        nontriv = nontriv or (0 < len(esure) < len(de_)) or bool(emaybe)
                        if nontriv:
                            res["nt"] += 1
                        for kk in (None, 1, 2):
                            res["n"] += 1
                            res["tr"] += 1
                            try:
                                got = mp.edges_closeto(loc, max_dist=r, max_elmt=kk)
                            except Exception as exc:  # noqa
                                res["v"].append({"msg": f"{bname}.edges_closeto({loc},{r},{kk}) raised {exc!r}", "case": mini})
                                continue
                            res["tv"] += 1
                            msgs = []
                            keys = [(x[1], x[3]) for x in got]
                            if len(set(keys)) != len(keys):
                                msgs.append(f"duplicate elements {keys}")
                            ds = [x[0] for x in got]
                            if any(ds[i] > ds[i + 1] for i in range(len(ds) - 1)):
                                msgs.append(f"not sorted by distance: {ds}")
                            for x in got:
                                e = (x[1], x[3])
                                if e not in de_:
                                    msgs.append(f"edge {e} is not an edge of the map")
                                    continue
                                td, tpi, tti = de_[e]
                                if abs(x[0] - td) > tol:
                                    msgs.append(f"edge {e}: distance {x[0]} != true {td}")
                                if tuple(x[2]) != tuple(nodes[e[0]]) or tuple(x[4]) != tuple(nodes[e[1]]):
                                    msgs.append(f"edge {e}: end point locations {x[2]},{x[4]} wrong")
                                if met.d(x[5], tpi) > ptol:
                                    msgs.append(f"edge {e}: projection point {x[5]} != nearest point {tpi}")
                                seglen = met.d(nodes[e[0]], nodes[e[1]])
                                if seglen > 0 and abs(x[6] - tti) * seglen > ptol:
                                    msgs.append(f"edge {e}: relative position {x[6]} != {tti}")
                            gs = set(keys)
                            allowed = esure | emaybe
                            known_hit = False
                            if kk is None:
                                ok = esure <= gs <= allowed
                                if not ok and bname == "inmem" and gs <= allowed and (esure - d2_miss - d2_either) <= gs \
                                        and not (gs & d2_miss) and (esure - gs):
                                    known_hit = True
                                elif not ok:
                                    msgs.append(f"returned {sorted(gs)}, edges below the radius are {sorted(esure)}"
                                                + (f" (on the radius within rounding: {sorted(emaybe)})" if emaybe else ""))
                                if gs & eforb:
                                    msgs.append(f"edge(s) {sorted(gs & eforb)} lie exactly at distance {r} and are returned although the "
                                                f"query asks for distances below the radius")
                            else:
                                want = min(kk, len(esure))
                                good = gs <= allowed and want <= len(got) <= kk
                                if good:
                                    best = sorted(de_[e][0] for e in allowed)[:len(got)]
                                    good = all(abs(a - b) <= tol for a, b in zip(sorted(ds), best))
                                if not good:
                                    # the same under the D2 predicate: candidates are only the edges D2 does not hide
                                    vis = allowed - d2_miss
                                    want2 = min(kk, len(esure - d2_miss - d2_either))
                                    good2 = bname == "inmem" and gs <= vis and want2 <= len(got) <= kk and bool((d2_miss | d2_either) & allowed)
                                    if good2:
                                        lo = sorted(de_[e][0] for e in vis)[:len(got)]
                                        lo2 = sorted(de_[e][0] for e in (vis - d2_either))[:len(got)]
                                        good2 = all(abs(a - b) <= tol for a, b in zip(sorted(ds), lo)) or \
                                            all(abs(a - b) <= tol for a, b in zip(sorted(ds), lo2))
                                    if good2:
                                        known_hit = True
                                    else:
                                        msgs.append(f"max_elmt={kk}: returned {keys} with distances {ds}; edges below the radius: "
                                                    f"{sorted(esure)}")
                            if known_hit and not msgs:
                                res["k"].append({"id": "D2", "case": mini,
                                                 "msg": f"inmem.edges_closeto({loc}, max_dist={r}, max_elmt={kk}) [{case['frame']}] returned "
                                                        f"{sorted(gs)}; missing {sorted((esure - gs))}: within the radius but their start node "
                                                        f"is outside the box around the location"})
                            for m in msgs[:3]:
                                res["v"].append({"msg": f"{bname}.edges_closeto({loc}, max_dist={r}, max_elmt={kk}) [{case['frame']}]: {m}",
                                                 "case": mini})
                            outs.add(("e", kk, len(got), len(de_)))

    try:
        sweep(mps, nodes, es, 0)
        if case.get("phase", 1) == 1 and "inmem" in mps and n >= 2:
            # query - EDIT - query on the live in-memory map: the last node is moved (del_node, add_node at another place,
            # its outgoing edges added again) - a size-preserving edit - and every query is asked again against the new geometry
            mv = n - 1
            moved0 = (SHAPE[mv][0] + 0.75, SHAPE[mv][1] - 1.25)
            im = mps["inmem"]
            outs_mv = [b for a, b in es if a == mv]
            im.del_node(mv)
            im.add_node(mv, f(moved0))
            for b in outs_mv:
                im.add_edge(mv, b)
            nodes2 = dict(nodes)
            nodes2[mv] = f(moved0)
            SHAPE2[:] = list(SHAPE)
            SHAPE2[mv] = moved0
            sweep({"inmem": im}, nodes2, es, 1)
    finally:
        for mp in mps.values():
            maps.close(mp)
    res["out"] = sorted(outs, key=repr)
    return res


def describe(case):
    latlon, f, unit = frame(case["frame"])
    n, es = edge_sets(case.get("tier", "quick"))[case["g"]] if "edges" not in case else (case["n"], case["edges"])
    d = {"frame": case["frame"], "use_latlon": latlon, "nodes": {i: f(SHAPE[i]) for i in range(n)}, "edges": es, "unit": unit}
    if "queries" in case:
        d["query"] = f(tuple(case["queries"][0]))
        d["radius"] = case["radii"][0] * unit
        d["backend"] = case.get("backends")
    return d
