"""C19 — turning on debug logging does not change results (differential)."""
import io
import itertools
import logging

from mc import bind
from mc import alphabet as al
from mc import maps
from mc import mspace as ms
from checks import _pathspace as ps

ID = "C19"
TITLE = "Turning on debug logging does not change results"
MANIFEST = {
    "text": "Every input of the slice (all graphs on 2-3 placed nodes in both alphabets, 26 named 4-12 node graphs; traces of length <= 3 "
            "incl. an outlier) x 14 configurations (3 families x non-emitting on/off x cut-offs that reject first / later candidates x "
            "widths) is matched by the real code at the default level and at level DEBUG, once with a StringIO stream handler and once "
            "with only a NullHandler attached to the package logger: the return value (type included), the canonical result and the "
            "per-state probabilities of the best path must be identical. The same after an incremental extension and a widening.",
    "note": "Trusted: the comparison. DEBUG is switched on the package logger exactly as the documentation recommends.",
    "technique": "bounded-exhaustive differential enumeration: every input executed at both log levels and compared",
}
MANIFEST["text"] += " " + (
    'Added after the seeding waves: on the named graphs all spanning traces (pairs and jumping triples) with eight non-emitting configurations incl. widths 2-3 and a tight max_dist, which is where the DEBUG-only code paths (stopped candidates inside the non-emitting search and in pruning) are reached; this found D20 and D21. Wherever the plain match stops early, the history match / continue_with_distance / match(expand=True) is compared between the two levels as well; a 9-node road loop with a joining side road (`loop9`), sparse traces and a grid of min_prob_norm values (a rejected and a live candidate share a lattice key inside a long non-emitting run).')
BUDGET = {"quick": 900, "thorough": 3000}
RULE = ("states = (input, configuration) triples of runs (default, DEBUG+stream handler, DEBUG+null handler), transitions = matcher "
        "executions, traces validated = DEBUG results compared with the default result; non-trivial = under DEBUG the lattice contains at "
        "least one stopped entry (the code path that only exists under DEBUG ran); outcomes = canonical results.")
ASSUMPTIONS = ["strict equality, probabilities rounded to 1e-12"]

CFGS = [dict(fam=f, ne=ne, avoid=True, width=None, **cut) for f in ms.FAMS for ne in (False, True)
        for cut in ({"max_dist": 1.5}, {"min_prob_norm": 0.3})] + \
       [dict(fam="D", ne=True, avoid=True, width=1, min_prob_norm=0.3), dict(fam="SN", ne=True, avoid=True, width=2, max_dist=1.0)]


def space(tier):
    return {"configurations": CFGS, "handlers": ["StreamHandler(StringIO)", "NullHandler"], "histories": ["match", "match prefix + extend", "match + widen", "match + continue_with_distance + extend (where the match stopped early)"]}


def cases(tier):
    for gs in ms.graph_slice("n3" if tier == "quick" else "n4e3"):
        yield {"gs": list(gs), "tier": tier}
    for name, pos, g in ms.special_graphs():
        yield {"gs": ms.explicit(g), "pos": pos, "name": name, "tier": tier}
    for name, pos, g in ms.special_graphs():
        if tier == "thorough" or pos == "GENERIC" or "fork8" in name:
            yield {"gs": ms.explicit(g), "pos": pos, "name": name, "tier": tier, "wide": True}
    yield {"gs": ms.explicit(LOOP9), "pos": "GENERIC", "name": "loop9-1way", "tier": tier, "loop": True}


# A road loop (triangle 4 > 5 > 6 > 4) with a side road (1 > 7 > 6) that joins it, at unit scale: inside a long non-emitting run
# a state of layer >= 2 is reached from two different states of the layer before, one of them through a candidate that a
# min_prob_norm cut-off rejects - the DEBUG-only stopped entry then shares a key with a live one (prev_other is filled)
LOOP9 = {0: ((-4.0, 0.0), [1]), 1: ((-2.0, 0.0), [2, 7]), 2: ((0.0, 0.0), [3]), 3: ((1.0, 0.0), [4]), 4: ((2.0, 0.0), [5]), 5: ((3.0, 0.0), [6]),
         6: ((2.5, 1.0), [4, 8]), 7: ((0.0, 0.6), [6]), 8: ((2.5, 4.0), [])}
LOOP_TRACES = [[(-3.8, 0.0), (-1.9, 0.0), (0.1, 0.0), (2.75, 0.5), (2.5, 2.2), (2.5, 3.5)], [(-1.9, 0.0), (0.1, 0.0), (2.75, 0.5), (2.5, 3.5)],
               [(-3.8, 0.1), (0.1, 0.1), (2.5, 2.2)], [(0.1, 0.0), (2.75, 0.5), (2.1, 0.1), (2.5, 3.5)], [(-1.9, 0.0), (2.75, 0.5), (2.5, 2.2)]]
LOOP_CFGS = [dict(fam=f, ne=True, avoid=av, width=None, obs_noise=0.5, max_dist=3.0, max_dist_init=0.8, min_prob_norm=mpn)
             for f in ("S", "SN", "D") for av in (True, False) for mpn in (0.5, 0.55, 0.6, 0.65, 0.7)]


class Level:
    def __init__(self, mode):
        self.mode = mode
        self.h = None

    def __enter__(self):
        if self.mode == "stream":
            self.h = logging.StreamHandler(io.StringIO())
            bind.LOG.addHandler(self.h)
        if self.mode != "default":
            bind.LOG.setLevel(logging.DEBUG)

    def __exit__(self, *a):
        bind.LOG.setLevel(logging.ERROR)
        if self.h is not None:
            bind.LOG.removeHandler(self.h)


def trace_list(case, graph, pos):
    if "trace" in case:
        return [[tuple(p) for p in case["trace"]]]
    if isinstance(case["gs"], dict):
        P = [v[0] for v in graph.values()]
        near = [(p[0] + 0.13, p[1] - 0.11) for p in P]
        n = len(P) - 1
        return ms.axis_traces(graph) + [[near[min(i, n)] for i in t] for t in ps.span_idx(n)] + [[near[0], al.FAR[pos], near[n]]]
    o = al.OBS[pos]
    out = [list(t) for T in (1, 2) for t in itertools.product(o[:5], repeat=T)]
    out += [list(t) for t in itertools.product([o[0], o[2], o[3]], repeat=3)]
    out += [[o[1], o[4], o[2]], [o[4], o[1], o[2]], [o[1], o[2], o[4]], [o[1], o[1], o[2]], [o[2], o[1], o[1]]]
    if case.get("tier") == "thorough":
        out += [list(t) for t in itertools.product([o[1], o[2], o[4]], repeat=3)]
    return out


def observe(mp, c, trace, hist):
    m = ms.make_matcher(mp, c)
    try:
        if hist == "match":
            r = m.match(list(trace))
        elif hist == "extend":
            m.match(list(trace[:1]))
            r = m.match(list(trace), expand=True)
        elif hist == "jump":
            # after an early stop: jump over the gap, then continue matching the rest of the trace
            m.match(list(trace))
            m.continue_with_distance()
            r = m.match(list(trace), expand=True)
        else:
            m.match(list(trace))
            r = m.increase_max_lattice_width((c.get("width") or 1) + 1)
    except Exception as exc:  # noqa
        return m, ("EXC", repr(exc))
    if not (isinstance(r, tuple) and len(r) == 2):
        return m, ("BAD", repr(r))
    return m, (type(r[0]).__name__,) + ms.canon(m, r, nd=12)


WIDE = [dict(fam="SN", ne=True, avoid=True, width=None), dict(fam="SN", ne=True, avoid=False, width=None, min_prob_norm=0.1),
        dict(fam="S", ne=True, avoid=True, width=None, max_dist=2.5), dict(fam="D", ne=True, avoid=True, width=None, min_prob_norm=0.1),
        dict(fam="S", ne=True, avoid=True, width=2, max_dist=2.5), dict(fam="D", ne=True, avoid=True, width=3, max_dist=2.5),
        dict(fam="S", ne=True, avoid=True, width=3, max_dist=0.5), dict(fam="D", ne=True, avoid=True, width=2, max_dist=0.5)]


def run_case(case):
    res = dict(n=0, st=0, tr=0, tv=0, nt=0, out=[], v=[], k=[])
    outs = set()
    graph = ps.graph_of(case)
    pos = ps.pos_of(case)
    egraph = ms.explicit(graph)
    mp = maps.inmem(graph)
    cfgs = [case["cfg"]] if "cfg" in case else CFGS
    todo = [(t, cfgs) for t in trace_list(case, graph, pos)]
    if case.get("loop") and "trace" not in case:
        todo = [(t, LOOP_CFGS) for t in LOOP_TRACES] + [(t, LOOP_CFGS[2::5]) for t in ps.special_traces(pos, graph)]
    if case.get("wide") and "trace" not in case:
        # named graphs: all traces that span the graph (pairs and jumping triples), with the non-emitting configurations whose
        # DEBUG-only code paths (stopped candidates inside the non-emitting search) they reach
        todo = [(t, WIDE) for t in ps.special_traces(pos, graph)]
    for trace, cfgs in todo:
        for c in cfgs:
            hists = [case["hist"]] if "hist" in case else (["match"] + (["extend"] if len(trace) > 1 else []) + (["widen"] if c.get("width") else []))
            for hist in hists:
                _, ref = observe(mp, c, trace, hist)
                if hist == "match" and "hist" not in case and len(ref) > 2 and isinstance(ref[1], int) and ref[1] < len(trace) - 1 and ref[0] == "list":
                    hists.append("jump")        # the plain match stopped early: also match / continue_with_distance / extend
                res["n"] += 1
                outs.add(ref[:3])
                stopped = False
                for mode in ("stream", "null"):
                    with Level(mode):
                        md, got = observe(mp, c, trace, hist)
                    res["n"] += 1
                    res["tr"] += 1
                    res["tv"] += 1
                    if md.lattice:
                        stopped |= any(e.stop for col in md.lattice.values() for layer in col.o for e in layer.values())
                    if got != ref:
                        res["v"].append({"msg": f"{al.describe_graph(graph)} trace {trace} cfg {c} ({hist}): at level DEBUG ({mode} handler) the "
                                                f"result is {got[:4]}, at the default level {ref[:4]}",
                                         "case": {"gs": egraph, "pos": pos, "trace": trace, "cfg": c, "hist": hist}})
                res["st"] += 1
                if stopped:
                    res["nt"] += 1
    res["out"] = sorted(outs, key=repr)[:1000]
    res["v"] = res["v"][:20]
    return res


def describe(case):
    return {k: case[k] for k in case if k != "tier"}
