"""C05 — cut-offs honoured, matched positions are true nearest points (planar and latitude-longitude)."""
import math

from mc import bind  # noqa: F401
from mc import alphabet as al
from mc import maps
from mc import mspace as ms
from mc import refgeom as rg
from mc.refmodel import replay
from checks import _pathspace as ps

ID = "C05"
TITLE = "Cut-offs are honoured and matched positions are true nearest points"
MANIFEST = {
    "text": "Over the shared graph/trace slice and a cut-off grid (max_dist x max_dist_init x min_prob_norm including boundary-valued "
            "settings attained exactly on GRID inputs) x 3 families x non-emitting on/off x widths, in the planar metric and, for the "
            "same maps placed at 3 anchors on the sphere (40 m per unit), in the latitude-longitude metric: every state on the returned "
            "path is within max_dist of its observation (point, or observation segment for non-emitting states; max_dist_init, strictly, "
            "for the first), has a length-normalised log-probability >= log(min_prob_norm), and for emitting edge states the reported "
            "position is the true nearest point, the reported relative position its parameter and dist_obs the true distance (exact "
            "reference planar; 3-D vector reference with 5 cm / 25 cm tolerances on the sphere).",
    "note": "Trusted: mc/refgeom.py. Finite cut-off grid and two metrics at fixed anchors below 60 degrees latitude.",
    "technique": "bounded-exhaustive enumeration of inputs x configurations x metrics with a geometric reference model on every path state",
}
MANIFEST["text"] += " " + (
    'Added after the seeding waves: the planar metric at two more magnitudes (coordinates x 2^-16 and x 2^23), kilometre-scale edges at 59.9N, and a matcher object re-used for another trace after a widening / extension (the initial radius must hold around the NEW first observation).')
BUDGET = {"quick": 900, "thorough": 3000}
RULE = ("states = path states checked, transitions = (state, cut-off/position clause) checks, traces validated = best paths checked; "
        "non-trivial = a finite cut-off is configured and the path is non-empty, or the metric is latitude-longitude; outcomes = (index, path shape).")
ASSUMPTIONS = ["geodesic tolerances: 5 cm + 1e-6 d on distances, 25 cm on positions (DESIGN section 4)"]

C = ps.cfg
CUTGRID = [dict(max_dist=md, max_dist_init=mi, min_prob_norm=mp)
           for md in (None, 1.0, 1.5, 2.5) for mi in (None, 1.1) for mp in (None, 0.3, 0.6) if not (md is None and mi is None and mp is None)]
MAIN = [dict(fam=f, ne=ne, avoid=True, width=None, **cg) for f in ms.FAMS for ne in (False, True) for cg in CUTGRID if (f == "D" or cg["max_dist_init"] is None or ne)] + \
       [dict(fam=f, ne=True, avoid=True, width=1, max_dist=1.5, min_prob_norm=0.3) for f in ms.FAMS]
N4 = [dict(fam=f, ne=True, avoid=True, width=None, max_dist=1.5, min_prob_norm=0.3) for f in ms.FAMS] + \
     [dict(fam="D", ne=True, avoid=True, width=None, max_dist=1.0), dict(fam="S", ne=False, avoid=False, width=None, max_dist=2.5, max_dist_init=1.1)]
UNIT = 40.0
ANCHORS = [(50.86, 4.7), (-33.3, -70.1), (0.0, 0.0), (59.9, 10.0)]
LL = [dict(fam=f, ne=ne, avoid=True, width=None, **cg) for f in ms.FAMS for ne in (False, True)
      for cg in (dict(max_dist=60.0), dict(max_dist=100.0, max_dist_init=44.0, min_prob_norm=0.3), dict(min_prob_norm=0.6, max_dist=40.0))]


REUSE_CFGS = [dict(fam=f, ne=ne, avoid=True, width=1, max_dist=1.5, max_dist_init=1.1) for f in ms.FAMS for ne in (False, True)] + \
             [dict(fam="D", ne=True, avoid=True, width=1, max_dist=2.5, min_prob_norm=0.3)]


def cfgs_for(sl):
    return MAIN if sl in ("n3", "special") else N4


def space(tier):
    return {"planar_configurations": len(MAIN), "cutoff_grid": CUTGRID, "latlon_configurations": LL, "anchors": ANCHORS, "metres_per_unit": UNIT}


def cases(tier):
    for c in ps.cases(tier, with_hist=False):
        c["tier"] = tier
        c["metric"] = "planar"
        if c.get("slice") == "n3" and tier == "quick":
            c["n_obs"] = 3        # (the large cut-off grid is run over a 3-point observation alphabet in the quick tier)
        yield c
    for ai in range(3):
        for gs in ms.graph_slice("n3"):
            if tier == "quick" and gs[1] == 3 and al.nedges(gs[2]) > 3:
                continue
            yield {"kind": "ll", "gs": list(gs), "anchor": ai, "T": 2 if tier == "quick" else 3, "tier": tier, "metric": "latlon"}
    # kilometre-scale edges far north (20 km per unit at 59.9N): the projection point must lie on the great-circle edge
    for gs in ms.graph_slice("n3"):
        if gs[0] == "GENERIC" and al.nedges(gs[2]) <= (3 if tier == "quick" else 6):
            yield {"kind": "ll", "gs": list(gs), "anchor": 3, "T": 2, "tier": tier, "metric": "latlon-20km", "unit": 20000.0}
    # the same matcher object reused for another trace after a widening / an extension: the cut-offs (in particular the
    # initial radius around the NEW first observation) must hold for the new match as well
    for hist in ([["M", 9], ["W", 2], ["N"]], [["M", 2], ["X", 9], ["N"]], [["M", 9], ["N"]]):
        for gs in ms.graph_slice("n3"):
            if al.nedges(gs[2]) >= 2 and (gs[0] == "GENERIC" or tier == "thorough"):
                yield {"kind": "hist", "gs": list(gs), "slice": "hist", "T": 3, "hist": hist, "tier": tier, "metric": "planar"}
        for name, pos, g in ms.special_graphs():
            yield {"kind": "hist", "gs": ms.explicit(g), "pos": pos, "slice": "hist-special", "name": name, "T": 3, "hist": hist, "tier": tier,
                   "metric": "planar"}
    # the planar metric at another magnitude: the same maps with coordinates (and all distance parameters) scaled by 2^-16
    # (roads of length ~3e-5, e.g. degrees used as planar coordinates) and by 2^23 (projected metres); emitting-only, since
    # the non-emitting search has absolute tolerances (known finding D11)
    for k in (-16, 23):
        for gs in ms.graph_slice("n3"):
            yield {"kind": "scaled", "gs": list(gs), "k": k, "T": 2 if tier == "quick" else 3, "tier": tier, "metric": f"planar x 2^{k}"}


def to_ll(anchor, p, unit=None):
    if p[0] == 0 and p[1] == 0:
        return anchor
    return rg.sph_dest(anchor, math.degrees(math.atan2(p[1], p[0])), math.hypot(p[0], p[1]) * (unit or UNIT))


def judge(m, r, graph, trace, c, unique, ctx, latlon=False):
    if isinstance(r, Exception):
        return [(None, f"raised {r!r}")]
    if not (isinstance(r, tuple) and len(r) == 2) or not m.lattice_best:
        return []
    out = [("NT", "")]
    viols, n = replay(m, trace, ms.kind_of(c), latlon=latlon)
    for tag, msg in viols:
        if tag in ("geom", "cut"):
            out.append((None, msg))
    return out


SCALED_CFGS = [dict(fam=f, ne=False, avoid=True, width=None, **cg) for f in ms.FAMS
               for cg in (dict(max_dist=1.5), dict(max_dist=2.5, max_dist_init=1.1, min_prob_norm=0.3), dict(min_prob_norm=0.6))]


def run_scaled(case, res):
    s = 2.0 ** case["k"]
    pos = case["gs"][0]
    g0 = ms.build_graph(tuple(case["gs"]))
    graph = {k: ((v[0][0] * s, v[0][1] * s), list(v[1])) for k, v in g0.items()}
    mp = maps.inmem(graph)
    outs = set()
    if "trace" in case:
        traces = [[tuple(p) for p in case["trace"]]]
        cfgs = [case["cfg"]]
    else:
        traces = [[(p[0] * s, p[1] * s) for p in t] for t in ps.trace_set(pos, case["T"], n_obs=4)]
        cfgs = SCALED_CFGS
    for trace in traces:
        for c0 in cfgs:
            c = dict(c0)
            if "trace" not in case:
                c["obs_noise"] = 1.0
                for key in ("obs_noise", "max_dist", "max_dist_init"):
                    if c.get(key) is not None:
                        c[key] = c[key] * s
            m = ms.make_matcher(mp, c)
            try:
                r = m.match(list(trace))
            except Exception as exc:  # noqa
                r = exc
            res["n"] += 1
            mini = {"kind": "scaled", "gs": case["gs"], "k": case["k"], "trace": trace, "cfg": c, "metric": case["metric"]}
            verdicts = [(None, f"raised {r!r}")] if isinstance(r, Exception) else []
            if not verdicts and isinstance(r, tuple) and len(r) == 2 and m.lattice_best:
                verdicts = [("NT", "")]
                viols, _ = replay(m, trace, ms.kind_of(c), unit=s)
                verdicts += [(None, msg) for tag, msg in viols if tag in ("geom", "cut")]
            ps._absorb(res, outs, verdicts, m, r, mini, f"planar x 2^{case['k']} {al.describe_graph(graph)} trace {trace} cfg {c}")
    res["out"] = sorted(outs, key=repr)
    return res


def run_case(case):
    res = dict(n=0, st=0, tr=0, tv=0, nt=0, out=[], v=[], k=[])
    if case.get("kind") == "scaled":
        return run_scaled(case, res)
    if case.get("kind") == "hist":
        return ps.run(case, cfgs_for, judge, res, hist_cfgs=REUSE_CFGS)
    if case.get("kind") != "ll":
        return ps.run(case, cfgs_for, judge, res)
    anchor = ANCHORS[case["anchor"]]
    pos = case["gs"][0]
    g0 = ms.build_graph(tuple(case["gs"]))
    unit = case.get("unit")
    graph = {k: (to_ll(anchor, v[0], unit), list(v[1])) for k, v in g0.items()}
    outs = set()
    mp = maps.inmem(graph, use_latlon=True)
    if "trace" in case:
        traces = [[tuple(p) for p in case["trace"]]]
        cfgs = [case["cfg"]]
    else:
        traces = [[to_ll(anchor, p, unit) for p in t] for t in ps.trace_set(pos, case["T"], n_obs=4)]
        cfgs = LL
        if unit:
            k_ = unit / UNIT
            cfgs = [dict(c, **{key: c[key] * k_ for key in ("max_dist", "max_dist_init") if c.get(key)}, obs_noise=UNIT * k_) for c in LL if not c["ne"]]
    for trace in traces:
        for c in cfgs:
            m = ms.make_matcher(mp, c)
            try:
                r = m.match(list(trace))
            except Exception as exc:  # noqa
                r = exc
            res["n"] += 1
            mini = {"kind": "ll", "gs": case["gs"], "anchor": case["anchor"], "trace": trace, "cfg": c, "metric": case.get("metric", "latlon")}
            if unit:
                mini["unit"] = unit
            ps._absorb(res, outs, judge(m, r, graph, trace, c, False, {"expand": False}, latlon=True), m, r, mini,
                       f"lat-lon {al.describe_graph(graph)} trace {trace} cfg {c}")
    res["out"] = sorted(outs, key=repr)
    return res


def describe(case):
    return {k: case[k] for k in case if k != "tier"}
