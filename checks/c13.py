"""C13 — planar geometry primitives are exact.

Exhaustive enumeration of all ordered point/segment triples and segment pairs with end points on a
k x k integer grid, under exact transforms (power-of-two scalings, an exactly representable translation)
and one non-dyadic perturbation that leaves the exactly degenerate configurations; oracle = exact rational
geometry (mc.refgeom)."""
import itertools
import math
from fractions import Fraction as Fr

from mc import bind  # noqa: F401
from mc import refgeom as rg
from leuvenmapmatching.util import dist_euclidean as de

ID = "C13"
TITLE = "Planar geometry primitives are exact"
MANIFEST = {
    "text": "Every ordered point/segment triple and every ordered segment pair with end points on a 4x4 (thorough 5x5) integer "
            "grid, under 6 transforms (exact scalings and translations, two non-dyadic perturbations), is executed on the real "
            "primitives and compared field by field with exact rational geometry; the enumeration is complete, so every "
            "degenerate alignment (zero-length, parallel, collinear, touching, crossing, clamped) within the grid is covered.",
    "note": "Trusted: CPython fractions, mc/refgeom.py. Decided on a finite lattice of inputs, not the continuum of all finite "
            "coordinates; coordinates closer than the library's absolute 1e-8 tolerance are not enumerated (D11).",
    "technique": "bounded-exhaustive enumeration of inputs against an exact rational reference model",
}
MANIFEST["text"] += " " + (
    'Added after the seeding waves: two non-dyadic scalings (x0.1, x1/3 + shift) under which parallel / collinear / touching configurations hold only up to rounding, and scale 2^-16 for the point/segment routines.')
BUDGET = {"quick": 240, "thorough": 1500}
RULE = ("cases = blocks (primitive, transform, first two grid points); every block enumerates all remaining grid "
        "points; one evaluation = one call of the primitive under test compared with exact rational geometry. "
        "states = distinct input configurations evaluated, transitions = oracle comparisons (fields compared). "
        "non-trivial = the configuration is degenerate (zero-length, parallel, collinear, touching or crossing "
        "segments; projection clamped to an end point); outcomes = (branch class, clamped ends).")
ASSUMPTIONS = ["inputs are exactly representable doubles; the oracle evaluates them as rationals",
               "tolerance 1e-9 x max(1, largest |coordinate|) absolute on positions/distances, 1e-9 on relative positions",
               "coordinates whose differences are below 1e-8 (the library's absolute closeness tolerance) are outside "
               "the enumerated grids (see D11 in DESIGN.md)"]

TRANSFORMS = {
    "id": (1.0, (0.0, 0.0), None),
    "scale2^-4": (2.0 ** -4, (0.0, 0.0), None),
    "scale2^10": (2.0 ** 10, (0.0, 0.0), None),
    "shift(2^20,-2^10)": (1.0, (2.0 ** 20, -2.0 ** 10), None),
    "perturb-last": (1.0, (0.0, 0.0), (0.013, -0.007)),
    "perturb-first+shift": (1.0, (317.0, -211.0), (-0.0031, 0.0017)),
    # non-dyadic scalings: mathematically parallel / collinear / touching configurations become so only up to rounding
    # (the determinant is ~1e-17 instead of 0), which is how they arrive from real coordinates
    "scale0.1": (0.1, (0.0, 0.0), None),
    "scale1/3+shift(0.7,-0.3)": (1.0 / 3.0, (0.7, -0.3), None),
}
# segments of length ~1.5e-5: far above the library's absolute closeness tolerance (1e-8) for coordinates, so the
# point/segment routines must still be exact; the segment/segment routine is NOT run there (its parallel test has an
# absolute tolerance on a product of two differences, known finding D11)
PS_ONLY = {"scale2^-16(ps only)": (2.0 ** -16, (0.0, 0.0), None)}


def grid(tier):
    k = 4 if tier == "quick" else 5
    return [(float(y), float(x)) for y in range(k) for x in range(k)]


def space(tier):
    k = 4 if tier == "quick" else 5
    return {"grid": f"{k}x{k} integer points", "point_segment_triples": (k * k) ** 3, "segment_pairs": (k * k) ** 4,
            "transforms": list(TRANSFORMS), "box": "centres x radii x magnitudes, see cases()"}


def cases(tier):
    g = grid(tier)
    n = len(g)
    for tf in list(TRANSFORMS) + ["scale2^-16(ps only)"]:
        for i in range(n):
            yield {"part": "ps", "tf": tf, "i": i, "tier": tier}
    for tf in TRANSFORMS:
        for i in range(n):
            for j in range(n):
                yield {"part": "ss", "tf": tf, "i": i, "j": j, "tier": tier}
    yield {"part": "box", "tier": tier}


def apply_tf(tf, pts, which_perturb):
    s, (dy, dx), pert = TRANSFORMS[tf] if tf in TRANSFORMS else PS_ONLY[tf]
    out = []
    for idx, p in enumerate(pts):
        y, x = p[0] * s + dy, p[1] * s + dx
        if pert is not None and idx == which_perturb:
            y, x = y + pert[0], x + pert[1]
        out.append((y, x))
    return out


def _tol(pts):
    m = max(max(abs(p[0]), abs(p[1])) for p in pts)
    return 1e-9 * (m if (m >= 1.0 or m == 0.0) else max(m, 1e-6))


def check_ps(p, s1, s2):
    """-> (violations, nontrivial, outcome)"""
    v = []
    tol = _tol([p, s1, s2])
    q, t, dd = rg.proj_exact(p, s1, s2)
    d_true = rg.fsqrt(dd)
    zero = rg.fpt(s1) == rg.fpt(s2)
    try:
        pi, ti = de.project(s1, s2, p)
        d, pi2, ti2 = de.distance_point_to_segment(p, s1, s2)
    except Exception as exc:  # noqa
        return [f"project/distance_point_to_segment raised {exc!r}"], True, "exc"
    for name, (ppi, tti) in (("project", (pi, ti)), ("distance_point_to_segment", (pi2, ti2))):
        if not (0.0 <= tti <= 1.0):
            v.append(f"{name}: relative position {tti} outside [0,1]")
        if math.hypot(ppi[0] - float(q[0]), ppi[1] - float(q[1])) > tol:
            v.append(f"{name}: returned point {tuple(ppi)} is not the nearest point {(float(q[0]), float(q[1]))}")
        if not zero and abs(tti - float(t)) > 1e-9:
            v.append(f"{name}: relative position {tti} != {float(t)}")
    if abs(d - d_true) > tol:
        v.append(f"distance_point_to_segment: distance {d} != true {d_true}")
    clamped = (t == 0 or t == 1)
    return v, (zero or clamped or dd == 0), ("ps", zero, t == 0, t == 1, dd == 0)


def _on_segment(pt, u, a, b, tol):
    """pt must be a + u (b - a) with u in [0,1] (any u for a zero-length segment)."""
    if not (0.0 <= u <= 1.0):
        return f"relative position {u} outside [0,1]"
    ex = (a[0] + u * (b[0] - a[0]), a[1] + u * (b[1] - a[1]))
    if math.hypot(pt[0] - ex[0], pt[1] - ex[1]) > tol:
        return f"point {tuple(pt)} is not at relative position {u} of segment {a}-{b} (that is {ex})"
    return None


def check_ss(f1, f2, t1, t2):
    v = []
    tol = _tol([f1, f2, t1, t2])
    dd = rg.segseg_d2_exact(f1, f2, t1, t2)
    d_true = rg.fsqrt(dd)
    try:
        res = de.distance_segment_to_segment(f1, f2, t1, t2)
        d, pf, pt, uf, ut = res
    except Exception as exc:  # noqa
        return [f"distance_segment_to_segment raised {exc!r}"], True, "exc"
    if abs(d - d_true) > tol:
        v.append(f"distance {d} != true minimum distance {d_true}")
    m = _on_segment(pf, uf, f1, f2, tol)
    if m:
        v.append("first segment: " + m)
    m = _on_segment(pt, ut, t1, t2, tol)
    if m:
        v.append("second segment: " + m)
    if abs(math.hypot(pf[0] - pt[0], pf[1] - pt[1]) - d_true) > 2 * tol:
        v.append(f"returned points {tuple(pf)}, {tuple(pt)} are {math.hypot(pf[0] - pt[0], pf[1] - pt[1])} apart, "
                 f"they do not realise the minimum {d_true}")
    a, b, c, e = rg.fpt(f1), rg.fpt(f2), rg.fpt(t1), rg.fpt(t2)
    par = ((b[0] - a[0]) * (e[1] - c[1]) - (b[1] - a[1]) * (e[0] - c[0])) == 0
    zero = a == b or c == e
    col = par and rg.orient(a, b, c) == 0 and rg.orient(a, b, e) == 0
    return v, (par or zero or dd == 0), ("ss", par, zero, col, dd == 0)


def check_box(c, r):
    v = []
    try:
        b = de.box_around_point(c, r)
    except Exception as exc:  # noqa
        return [f"box_around_point raised {exc!r}"]
    lat_b, lon_l, lat_t, lon_r = b
    slack = 4 * math.ulp(max(abs(c[0]), abs(c[1])) + r)
    if not (lat_b <= c[0] - r + slack and lon_l <= c[1] - r + slack and lat_t >= c[0] + r - slack and lon_r >= c[1] + r - slack):
        v.append(f"box {b} around {c} does not contain the disc of radius {r}")
    # every probe on the circle of radius r(1-1e-9) must be inside
    for k in range(16):
        a = 2 * math.pi * k / 16
        py, px = c[0] + r * (1 - 1e-9) * math.cos(a), c[1] + r * (1 - 1e-9) * math.sin(a)
        if not (lat_b - slack <= py <= lat_t + slack and lon_l - slack <= px <= lon_r + slack):
            v.append(f"point {(py, px)} at distance < {r} of {c} is outside the box {b}")
            break
    return v


def run_case(case):
    res = dict(n=0, st=0, tr=0, tv=0, nt=0, out=[], v=[], k=[])
    outs = set()

    def record(viols, nontriv, outcome, mini):
        res["n"] += 1
        res["st"] += 1
        res["tr"] += 4
        res["tv"] += 1
        if nontriv:
            res["nt"] += 1
        outs.add(outcome)
        for msg in viols:
            res["v"].append({"msg": f"{mini['part']} {mini['pts']}: {msg}", "case": mini})

    part = case["part"]
    if "pts" in case:
        pts = [tuple(p) for p in case["pts"]]
        if part == "ps":
            record(*check_ps(*pts), mini=case)
        elif part == "ss":
            record(*check_ss(*pts), mini=case)
        else:
            viols = check_box(tuple(pts[0]), case["r"])
            record(viols, True, ("box", bool(viols)), case)
        res["out"] = sorted(outs, key=repr)
        return res
    g = grid(case["tier"])
    if part == "ps":
        p0 = g[case["i"]]
        for s1, s2 in itertools.product(g, repeat=2):
            pts = apply_tf(case["tf"], [p0, s1, s2], 2)
            record(*check_ps(*pts), mini={"part": "ps", "pts": pts})
    elif part == "ss":
        f1, f2 = g[case["i"]], g[case["j"]]
        for t1, t2 in itertools.product(g, repeat=2):
            pts = apply_tf(case["tf"], [f1, f2, t1, t2], 3 if "last" in case["tf"] else 0)
            record(*check_ss(*pts), mini={"part": "ss", "pts": pts})
    else:
        centres = [(0.0, 0.0), (1.5, -2.25), (0.1, 0.7), (6007518.4, -13607641.0), (50.86, 4.7), (-1e7, 1e7)]
        radii = [2.0 ** -10, 0.1, 0.5, 1.0, 3.0, 9.8, 100.0, 12345.678]
        for c in centres:
            for r in radii:
                viols = check_box(c, r)
                record(viols, True, ("box", bool(viols)), {"part": "box", "pts": [c], "r": r})
    res["out"] = sorted(outs, key=repr)
    return res


def describe(case):
    if "pts" in case:
        return {"primitive": {"ps": "project / distance_point_to_segment(p, s1, s2)", "ss": "distance_segment_to_segment(f1, f2, t1, t2)",
                              "box": "box_around_point(p, r)"}[case["part"]], "arguments": case["pts"]}
    return {"block": case, "transform": TRANSFORMS.get(case.get("tf"))}
