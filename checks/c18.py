"""C18 — a stored map is the same map when opened again.

Explicit-state breadth-first search over build histories of a live map object; 'reopen' (close + from_file,
resp. dump + from_pickle) is itself a transition whose post-state must equal its pre-state."""
import collections
import os

from mc import bind  # noqa: F401
from mc import maps
from mc.engine import fp
from leuvenmapmatching.map.inmem import InMemMap
from leuvenmapmatching.map.sqlite import SqliteMap

ID = "C18"
TITLE = "A stored map is the same map when opened again"
MANIFEST = {
    "text": "Breadth-first search over build histories (depth <= 6 quick, <= 8 thorough) of a live SqliteMap from the alphabet "
            "{add_node(next, no_index, no_commit), add_nodes(rest), add_edge(next, no_index, no_commit), add_edges(rest, no_index), "
            "reindex_nodes, reindex_edges, commit, REOPEN}, for both metric flags and default/custom projection settings; REOPEN "
            "(close + from_file) is enabled in every well-formed state (nothing deferred is pending) and must leave the full map "
            "snapshot unchanged; histories continue after a reopen, so several cycles and building on a reopened map are covered. "
            "The same for InMemMap with {add_node, add_edge, DUMP+from_pickle}, integer and string labels, linked edges. States are "
            "de-duplicated on the canonical snapshot plus pending flags.",
    "note": "Trusted: SQLite as installed, pickle. 3 nodes / 3 edges; the snapshot contains every observable named in the statement "
            "(metric flag, bound distance functions, projection settings, size, node/edge listings, neighbour queries, a battery of "
            "radius queries). A history that closes with a deferred index or commit pending is outside the statement and not explored.",
    "technique": "explicit-state BFS over operation histories of the real object with canonical-state de-duplication; differential oracle original vs reopened",
}
MANIFEST["text"] += " " + (
    'Added after the seeding waves: reopening is enabled whenever nothing is uncommitted (a deferred index is a persistent, self-consistent state of the file).')
BUDGET = {"quick": 600, "thorough": 1800}
RULE = ("cases = (backend, metric flag, projection settings, label kind, first operation); below each a BFS to the stated depth. "
        "states = distinct canonical (snapshot, pending flags) states reached, transitions = operations executed on the real object "
        "(including replays to rebuild a state), traces validated = reopen transitions whose post-state was compared; non-trivial = "
        "reopen of a non-empty map; outcomes = distinct snapshots.")
ASSUMPTIONS = ["a history is well-formed when every deferred index is rebuilt and every deferred commit committed before closing"]

NODES = [(1, (50.0, 4.0)), (2, (50.001, 4.001)), (3, (50.002, 4.0005))]
EDGES = [(1, 2), (2, 1), (2, 3)]
QUERIES = [(50.0002, 4.0003), (50.001, 4.001), (50.003, 4.002)]
RADII = {False: [0.0004, 0.0012, 1.0], True: [40.0, 130.0, 100000.0]}


def depth(tier):
    return 6 if tier == "quick" else 8


def space(tier):
    return {"nodes": NODES, "edges": EDGES, "history_depth": depth(tier), "metric_flags": [False, True],
            "projection_settings": ["default", "custom"], "query_battery": {"points": QUERIES, "radii": RADII}}


def roots():
    for latlon in (False, True):
        for crs in ("default", "custom"):
            yield {"backend": "sqlite", "latlon": latlon, "crs": crs}
    for latlon in (False, True):
        for crs in ("default", "custom"):
            for labels in ("int", "str"):
                yield {"backend": "inmem", "latlon": latlon, "crs": crs, "labels": labels}


def cases(tier):
    for root in roots():
        for op in enabled(root, State(root)):
            c = dict(root)
            c["prefix"] = [op]
            c["depth"] = depth(tier)
            yield c


class State:
    """Abstract bookkeeping next to the live object: what has been added and what is pending."""
    def __init__(self, root):
        self.nn = 0
        self.ne = 0
        self.node_unidx = False
        self.edge_unidx = False
        self.uncommitted = False
        self.reopens = 0
        self.kept = 0          # RK transitions so far (a stored copy exists that the live object did not come from)
        self.live_reopened = False   # the live object is itself a reopened map
        self.stored = None     # fingerprint of what the stored copy held when it was last written / opened


def enabled(root, st):
    ops = []
    if root["backend"] == "sqlite":
        if st.nn < 3:
            for ni in (False, True):
                for nc in (False, True):
                    ops.append(["an", ni, nc])
            ops.append(["AN"])
        if st.ne < 3 and EDGES[st.ne][0] <= st.nn and EDGES[st.ne][1] <= st.nn:
            for ni in (False, True):
                for nc in (False, True):
                    ops.append(["ae", ni, nc])
        if st.ne < 3 and st.nn == 3:
            ops.append(["AE", False])
            ops.append(["AE", True])
        # (re-indexing also commits: it is a legitimate way to finalise rows that were added with no_commit=True)
        if st.node_unidx or (st.uncommitted and st.nn > 0):
            ops.append(["RN"])
        if st.edge_unidx or (st.uncommitted and st.ne > 0):
            ops.append(["RE"])
        if st.uncommitted:
            ops.append(["CM"])
        # A deferred COMMIT is the documented obligation before closing ("remember to commit later"); a deferred index is a
        # persistent, self-consistent state of the file (the un-indexed rows are simply not listed by the index-based
        # queries, before and after), so reopening is explored there as well.
        if not st.uncommitted and st.reopens < 3:
            ops.append(["RO"])
            if st.nn > 0 and st.kept == 0:
                ops.append(["RK"])
    else:
        if st.nn < 3:
            ops.append(["an"])
        if st.ne < 3 and EDGES[st.ne][0] <= st.nn and EDGES[st.ne][1] <= st.nn:
            ops.append(["ae"])
        if st.ne >= 2:
            ops.append(["LINK"])
        if st.reopens < 3:
            ops.append(["RO"])
            if st.nn > 0 and st.kept == 0:
                ops.append(["RK"])
    return ops


def lab(root, k):
    return k if root.get("labels", "int") == "int" else f"n{k}"


def snapshot(m, root):
    s = {}
    s["use_latlon"] = m.use_latlon
    s["dist_modules"] = tuple(getattr(getattr(m, a, None), "__module__", None) for a in
                              ("distance", "distance_point_to_segment", "distance_segment_to_segment", "box_around_point", "lines_parallel"))
    s["crs"] = (m.crs_lonlat, m.crs_xy)
    s["name"] = str(m.name).split("_")[0] + "@" + str(m.name == root.get("_name", m.name))
    s["size"] = m.size()
    s["labels"] = sorted(m.labels(), key=repr)
    nodes = sorted(((k, tuple(p)) for k, p in m.all_nodes()), key=repr)
    s["nodes"] = nodes
    s["edges"] = sorted(((a, tuple(pa), b, tuple(pb)) for a, pa, b, pb in m.all_edges()), key=repr)
    s["nbr"] = [(k, sorted(((x, tuple(p)) for x, p in m.nodes_nbrto(k)), key=repr)) for k, _ in nodes]
    s["enbr"] = [((a, b), sorted(((x1, tuple(p1), x2, tuple(p2)) for x1, p1, x2, p2 in m.edges_nbrto((a, b))), key=repr))
                 for a, _, b, _ in s["edges"]]
    s["coords"] = [(k, tuple(m.node_coordinates(k))) for k, _ in nodes]
    if nodes:
        s["bb"] = tuple(m.bb())
    close_n, close_e = [], []
    for q in QUERIES:
        for r in RADII[bool(root["latlon"])]:
            close_n.append([(round(x[0], 9), x[1], tuple(x[2])) for x in m.nodes_closeto(q, max_dist=r)])
            close_e.append([(round(x[0], 9), x[1], x[3], tuple(map(lambda z: round(z, 12), x[5])), round(x[6], 12))
                            for x in m.edges_closeto(q, max_dist=r)])
    s["nodes_closeto"] = close_n
    s["edges_closeto"] = close_e
    if root["backend"] == "inmem":
        s["linked"] = repr(sorted((m.linked_edges or {}).items(), key=repr))
        s["flags"] = (m.use_rtree, m.index_edges)
    return s


def diff(a, b):
    return [k for k in a if a[k] != b.get(k)] + [k for k in b if k not in a]


class Runner:
    def __init__(self, root):
        self.root = root
        self.dir = maps.scratch()
        self.nops = 0
        self.reopen_checked = 0
        self.viol = []
        self.serial = 0
        self.name = "c18"

    def fresh(self):
        kw = {}
        # a fresh file for every rebuilt state, so that a failed or leaked history cannot contaminate the next one
        self.cleanup()
        self.serial += 1
        self.name = f"c18_{self.serial}"
        if self.root["crs"] == "custom":
            kw = {"crs_lonlat": "EPSG:4258", "crs_xy": "EPSG:31370"}
        if self.root["backend"] == "sqlite":
            return SqliteMap(self.name, use_latlon=self.root["latlon"], dir=self.dir, **kw)
        return InMemMap(self.name, use_latlon=self.root["latlon"], dir=self.dir, **kw)

    def apply(self, m, st, op, hist):
        """-> new live map (the same object unless reopened)"""
        self.nops += 1
        k = op[0]
        root = self.root
        if root["backend"] == "sqlite":
            if k == "an":
                lbl, loc = NODES[st.nn]
                m.add_node(lbl, loc, no_index=op[1], no_commit=op[2])
                st.nn += 1
                st.node_unidx |= op[1]
                st.uncommitted |= op[2]
                if not op[2]:
                    st.uncommitted = False
            elif k == "AN":
                m.add_nodes(NODES[st.nn:])
                st.nn = 3
                st.uncommitted = False
            elif k == "ae":
                a, b = EDGES[st.ne]
                m.add_edge(a, b, no_index=op[1], no_commit=op[2])
                st.ne += 1
                st.edge_unidx |= op[1]
                st.uncommitted |= op[2]
                if not op[2]:
                    st.uncommitted = False
            elif k == "AE":
                m.add_edges(EDGES[st.ne:], no_index=op[1])
                st.ne = 3
                st.uncommitted = False
                st.edge_unidx = (st.edge_unidx or op[1]) if op[1] else False
            elif k == "RN":
                m.reindex_nodes()
                st.node_unidx = False
                st.uncommitted = False
            elif k == "RE":
                m.reindex_edges()
                st.edge_unidx = False
                st.uncommitted = False
            elif k == "CM":
                m.db.commit()
                st.uncommitted = False
            elif k == "RO":
                before = snapshot(m, root)
                m.db.close()
                m2 = SqliteMap.from_file(os.path.join(self.dir, self.name + ".sqlite"))
                after = snapshot(m2, root)
                st.reopens += 1
                st.stored = fp(before)
                st.live_reopened = True
                self.reopen_checked += 1
                d = diff(before, after)
                if d:
                    self.viol.append((list(hist), d, {x: (before[x], after.get(x)) for x in d[:3]}))
                return m2
            elif k == "RK":
                # a second handle on the stored file while the original stays open and keeps being built
                before = snapshot(m, root)
                m2 = SqliteMap.from_file(os.path.join(self.dir, self.name + ".sqlite"))
                try:
                    after = snapshot(m2, root)
                finally:
                    m2.db.close()
                st.reopens += 1
                st.stored = fp(before)
                st.kept += 1
                self.reopen_checked += 1
                d = diff(before, after)
                if d:
                    self.viol.append((list(hist), d, {x: (before[x], after.get(x)) for x in d[:3]}))
        else:
            if k == "an":
                lbl, loc = NODES[st.nn]
                m.add_node(lab(root, lbl), loc)
                st.nn += 1
            elif k == "ae":
                a, b = EDGES[st.ne]
                m.add_edge(lab(root, a), lab(root, b))
                st.ne += 1
            elif k == "LINK":
                e0 = (lab(root, EDGES[0][0]), lab(root, EDGES[0][1]))
                e1 = (lab(root, EDGES[1][0]), lab(root, EDGES[1][1]))
                m.linked_edges = {e0: {e1}}
            elif k == "RO":
                before = snapshot(m, root)
                m.dump()
                m2 = InMemMap.from_pickle(os.path.join(self.dir, self.name + ".pkl"))
                after = snapshot(m2, root)
                st.reopens += 1
                st.stored = fp(before)
                st.live_reopened = True
                self.reopen_checked += 1
                d = diff(before, after)
                if d:
                    self.viol.append((list(hist), d, {x: (before[x], after.get(x)) for x in d[:3]}))
                return m2
            elif k == "RK":
                # dump and open the stored copy, but keep building the ORIGINAL (the next dump overwrites the file)
                before = snapshot(m, root)
                m.dump()
                m2 = InMemMap.from_pickle(os.path.join(self.dir, self.name + ".pkl"))
                after = snapshot(m2, root)
                st.reopens += 1
                st.stored = fp(before)
                st.kept += 1
                self.reopen_checked += 1
                d = diff(before, after)
                if d:
                    self.viol.append((list(hist), d, {x: (before[x], after.get(x)) for x in d[:3]}))
        return m

    def cleanup(self):
        for ext in (".sqlite", ".sqlite-journal", ".pkl"):
            try:
                os.unlink(os.path.join(self.dir, self.name + ext))
            except OSError:
                pass

    def build(self, hist):
        m = self.fresh()
        self.live = m
        st = State(self.root)
        done = []
        try:
            for op in hist:
                done.append(op)
                m = self.apply(m, st, op, done)
                self.live = m
        except BaseException:
            maps.close(self.live)
            raise
        return m, st


def run_case(case):
    res = dict(n=0, st=0, tr=0, tv=0, nt=0, out=[], v=[], k=[])
    root = {k: case[k] for k in ("backend", "latlon", "crs", "labels") if k in case}
    rn = Runner(root)
    seen = set()
    outs = set()
    frontier = collections.deque([list(map(list, case["prefix"]))])
    exact = case.get("exact", False)
    maxdepth = case["depth"]
    while frontier:
        hist = frontier.popleft()
        nviol = len(rn.viol)
        try:
            m, st = rn.build(hist)
        except Exception as exc:  # noqa
            res["v"].append({"msg": f"history {hist} on {root}: raised {exc!r}", "case": dict(root, prefix=hist, depth=len(hist), exact=True)})
            continue
        try:
            snap = snapshot(m, root)
        finally:
            maps.close(m)
        if hist[-1][0] == "RO" and st.nn > 0:
            res["nt"] += 1
        for h, d, ex in rn.viol[nviol:]:
            if h == hist:   # report a reopen difference at the history where it first appears
                res["v"].append({"msg": f"history {h} on {root}: the reopened map differs from the original in {d}: "
                                        f"{ {k: v for k, v in ex.items()} }"[:900],
                                 "case": dict(root, prefix=h, depth=len(h), exact=True)})
        key = fp((snap, st.nn, st.ne, st.node_unidx, st.edge_unidx, st.uncommitted, min(st.reopens, 3), min(st.kept, 3), st.live_reopened, st.stored))
        outs.add(fp(snap))
        if key in seen:
            continue
        seen.add(key)
        if exact or len(hist) >= maxdepth:
            continue
        for op in enabled(root, st):
            frontier.append(hist + [op])
    rn.cleanup()
    res["n"] = rn.nops
    res["st"] = len(seen)
    res["tr"] = rn.nops
    res["tv"] = rn.reopen_checked
    res["out"] = sorted(outs)
    # violations recorded inside replays of longer histories are duplicates of the first report
    uniq = {}
    for v in res["v"]:
        uniq.setdefault(repr(v["case"]["prefix"]), v)
    res["v"] = list(uniq.values())[:10]
    return res


def describe(case):
    return {"root": {k: case.get(k) for k in ("backend", "latlon", "crs", "labels")}, "history": case["prefix"],
            "legend": "an=add_node(no_index,no_commit) AN=add_nodes ae=add_edge(no_index,no_commit) AE=add_edges(no_index) "
                      "RN/RE=reindex CM=commit RO=reopen (continue on the reopened map) RK=store/open a copy and compare, continue on the original LINK=set linked_edges"}
