"""C12 — map backends are interchangeable (in-memory vs SQLite), differential."""
import itertools
import math

from mc import bind  # noqa: F401
from mc import maps
from mc import alphabet as al
from leuvenmapmatching.matcher.simple import SimpleMatcher
from leuvenmapmatching.matcher.distance import DistanceMatcher

ID = "C12"
TITLE = "Map backends are interchangeable"
MANIFEST = {
    "text": "Every directed graph on 2-3 placed nodes and every graph on 4 nodes with at most 3 (thorough: 6) edges, with dyadic and with "
            "non-dyadic coordinates, is loaded into InMemMap and SqliteMap; all 9 observables of the statement are compared, the "
            "box-restricted node listing for all 64 boxes of an 8x8 interval grid whose sides pass through node coordinates and "
            "between them (closed-interval behaviour), and the canonical match result (index, best probability) of SimpleMatcher(edge "
            "states) and DistanceMatcher with non-emitting states off/on for every trace of length <= 3 (<= 2 on 4-node graphs).",
    "note": "Trusted: the comparison itself (sorting, float equality of stored coordinates). Integer labels only, unbounded initial "
            "radius, as in the statement. The in-memory self-neighbour entry and the degenerate edge it induces are removed before "
            "comparing, as the statement allows.",
    "technique": "bounded-exhaustive differential enumeration: same inputs on two backends, all observables compared",
}
MANIFEST["text"] += " " + (
    'Added after the seeding waves: a second SQLite map built with single inserts, and an incremental build (load a part, query it, add the rest with add_edge, compare again); the single-insert build offers every node with ignore_doubles=True and offers every label a second time with other coordinates (content must stay that of the first offer), box-restricted listings are compared on it too; a third SQLite build with deferred indexing (no_index / no_commit inserts, then reindex_nodes / reindex_edges) takes part in the listings, the box queries and the match.')
BUDGET = {"quick": 400, "thorough": 2400}
RULE = ("cases = (coordinate set, graph); each compares all observables, 64 boxes and all traces x 4 matcher configurations on both "
        "backends. states = (graph, box) and (graph, trace, configuration) pairs compared, transitions = observable comparisons, "
        "non-trivial = a box that contains some but not all nodes or has a node on its side, or a trace whose match is non-empty; "
        "outcomes = canonical observable values.")
ASSUMPTIONS = ["probabilities compared to 1e-9 relative; coordinates compared exactly"]

COORDS = {
    "dyadic": [(0.0, 0.5), (0.25, 2.0), (2.0, 0.125), (1.5, 2.5)],
    "nondyadic": [(0.1, 0.7), (0.3, 2.1), (1.9, 0.15), (1.45, 2.6)],
}
OBS = [(0.2, 0.6), (0.3, 1.7), (1.1, 1.0), (1.4, 2.4)]
CONFIGS = [("simple", False), ("simple", True), ("distance", False), ("distance", True)]


def graph_list(tier):
    out = []
    for n in (2, 3):
        for mask in al.masks(n):
            out.append((n, mask))
    for mask in al.masks(4, max_edges=3 if tier == "quick" else 6):
        out.append((4, mask))
    return out


def space(tier):
    return {"graphs": len(graph_list(tier)), "coordinate_sets": COORDS, "boxes_per_graph": 64, "observation_alphabet": OBS,
            "trace_lengths": "1..3 (n<=3), 1..2 (n=4)" if tier == "quick" else "1..3", "matchers": CONFIGS}


LABELS2 = [3, 4, -4, 2 ** 40]      # negative and very large integer labels


def cases(tier):
    gl = graph_list(tier)
    for cs in COORDS:
        for gi, (n, mask) in enumerate(gl):
            yield {"coords": cs, "n": n, "mask": mask, "tier": tier}
    for gi, (n, mask) in enumerate(gl):
        yield {"coords": "nondyadic", "n": n, "mask": mask, "tier": tier, "labels2": True}


def intervals(vals):
    c = sorted(set(vals))
    lo, hi = c[0] - 1.0, c[-1] + 1.0
    mids = [(a + b) / 2 for a, b in zip(c, c[1:])] or [c[0] + 0.5]
    c1 = c[min(1, len(c) - 1)]
    c2 = c[min(2, len(c) - 1)]
    return [(lo, hi), (c[0], c1), (c1, c2), (c[0], mids[-1]), (mids[0], c[-1]), (c1, c1), (mids[0], mids[-1] + 0.01), (c2, hi)]


def norm_nodes(x):
    return sorted((k, (float(p[0]), float(p[1]))) for k, p in x)


def norm_edges(x):
    return sorted((a, (float(pa[0]), float(pa[1])), b, (float(pb[0]), float(pb[1]))) for a, pa, b, pb in x)


def run_case(case):
    res = dict(n=0, st=0, tr=0, tv=0, nt=0, out=[], v=[], k=[])
    outs = set()
    pos = COORDS[case["coords"]]
    n = case["n"]
    graph = al.graph_from_mask(n, case["mask"], pos)
    if case.get("labels2"):
        graph = {LABELS2[k]: (v[0], [LABELS2[x] for x in v[1]]) for k, v in graph.items()}
    im = maps.inmem(graph)
    try:
        sm = maps.sqlite(graph)
        sm1 = maps.sqlite(graph, name="s1", bulk=False)     # same content through add_node / add_edge
        sm3 = maps.sqlite(graph, name="s3", bulk="deferred")     # ... and with deferred indexing + reindex_nodes / reindex_edges
    except Exception as exc:  # noqa
        res["n"] += 1
        res["st"] += 1
        res["tr"] += 1
        res["v"].append({"msg": f"graph {al.describe_graph(graph)}: loading the nodes and edges into SqliteMap raised {exc!r}",
                         "case": dict({"coords": case["coords"], "n": n, "mask": case["mask"]}, **({"labels2": True} if case.get("labels2") else {}))})
        return res
    mini0 = {"coords": case["coords"], "n": n, "mask": case["mask"]}
    if case.get("labels2"):
        mini0["labels2"] = True

    def bad(msg, **extra):
        mini = dict(mini0)
        mini.update(extra)
        res["v"].append({"msg": f"graph {al.describe_graph(graph)}: {msg}", "case": mini})

    def cmp(name, fa, fb, **extra):
        res["tr"] += 1
        res["n"] += 2
        try:
            a = fa()
        except Exception as exc:  # noqa
            bad(f"{name}: in-memory raised {exc!r}", **extra)
            return None
        try:
            b = fb()
        except Exception as exc:  # noqa
            bad(f"{name}: SQLite raised {exc!r}", **extra)
            return None
        res["tv"] += 1
        if a != b:
            bad(f"{name}: in-memory {a} != SQLite {b}", **extra)
        return a

    try:
        if "box" not in case and "trace" not in case and not case.get("incremental"):
            res["st"] += 1
            cmp("size()", im.size, sm.size)
            cmp("labels()", lambda: sorted(im.labels()), lambda: sorted(sm.labels()))
            for k in graph:
                cmp(f"node_coordinates({k})", lambda: tuple(map(float, im.node_coordinates(k))), lambda: tuple(map(float, sm.node_coordinates(k))))
                cmp(f"nodes_nbrto({k})", lambda: [x for x in norm_nodes(im.nodes_nbrto(k)) if x[0] != k], lambda: norm_nodes(sm.nodes_nbrto(k)))
            for a_, b_ in maps.graph_edges(graph):
                cmp(f"edges_nbrto(({a_},{b_}))", lambda: [x for x in norm_edges(im.edges_nbrto((a_, b_))) if x[0] != x[2]],
                    lambda: norm_edges(sm.edges_nbrto((a_, b_))))
            cmp("all_edges()", lambda: norm_edges(im.all_edges()), lambda: norm_edges(sm.all_edges()))
            cmp("all_edges() [single inserts]", lambda: norm_edges(im.all_edges()), lambda: norm_edges(sm1.all_edges()))
            cmp("all_nodes() [single inserts]", lambda: norm_nodes(im.all_nodes()), lambda: norm_nodes(sm1.all_nodes()))
            cmp("bb() [single inserts]", lambda: tuple(map(float, im.bb())), lambda: tuple(map(float, sm1.bb())))
            for k in graph:
                cmp(f"nodes_nbrto({k}) [single inserts]", lambda: [x for x in norm_nodes(im.nodes_nbrto(k)) if x[0] != k], lambda: norm_nodes(sm1.nodes_nbrto(k)))
            cmp("all_nodes()", lambda: norm_nodes(im.all_nodes()), lambda: norm_nodes(sm.all_nodes()))
            cmp("all_edges() [deferred index]", lambda: norm_edges(im.all_edges()), lambda: norm_edges(sm3.all_edges()))
            cmp("all_nodes() [deferred index]", lambda: norm_nodes(im.all_nodes()), lambda: norm_nodes(sm3.all_nodes()))
            bbv = cmp("bb()", lambda: tuple(map(float, im.bb())), lambda: tuple(map(float, sm.bb())))
            # bb() against the definition as well (both backends could be wrong together)
            ys = [graph[k][0][0] for k in graph]
            xs = [graph[k][0][1] for k in graph]
            if bbv is not None and bbv != (min(ys), min(xs), max(ys), max(xs)):
                bad(f"bb() = {bbv} is not the bounding box {(min(ys), min(xs), max(ys), max(xs))}")
        # the same content reached incrementally: load a part, QUERY it, then add the rest with single inserts, compare again
        if "box" not in case and "trace" not in case and len(maps.graph_edges(graph)) >= 2:
            es = maps.graph_edges(graph)
            half = len(es) // 2
            g1 = {k: (v[0], []) for k, v in graph.items()}
            for a, b in es[:half]:
                g1[a][1].append(b)
            im2 = maps.inmem(g1)
            sm2 = maps.sqlite(g1, name="s2", bulk=False)
            try:
                for phase in (1, 2):
                    if phase == 2:
                        for a, b in es[half:]:
                            im2.add_edge(a, b)
                            sm2.add_edge(a, b)
                    res["st"] += 1
                    tag = f"[phase {phase} of an incremental build: {half} edges, queried, then +{len(es) - half} by add_edge]"
                    for k in graph:
                        cmp(f"nodes_nbrto({k}) {tag}", lambda: [x for x in norm_nodes(im2.nodes_nbrto(k)) if x[0] != k], lambda: norm_nodes(sm2.nodes_nbrto(k)),
                            incremental=True)
                    cur = es[:half] if phase == 1 else es
                    for a_, b_ in cur:
                        cmp(f"edges_nbrto(({a_},{b_})) {tag}", lambda: [x for x in norm_edges(im2.edges_nbrto((a_, b_))) if x[0] != x[2]],
                            lambda: norm_edges(sm2.edges_nbrto((a_, b_))), incremental=True)
                    cmp(f"all_edges() {tag}", lambda: norm_edges(im2.all_edges()), lambda: norm_edges(sm2.all_edges()), incremental=True)
                    r2 = []
                    for mp in (im2, sm2):
                        m = DistanceMatcher(mp, non_emitting_states=True, obs_noise=1.0)
                        try:
                            st_, idx_ = m.match([OBS[0], OBS[3]])
                            r2.append((idx_, None if not m.lattice_best else round(float(m.lattice_best[-1].logprob), 9)))
                        except Exception as exc:  # noqa
                            r2.append(("EXC", repr(exc)))
                        res["n"] += 1
                    if r2[0] != r2[1]:
                        bad(f"match {tag}: in-memory {r2[0]} != SQLite {r2[1]}", incremental=True)
            finally:
                maps.close(sm2)
        # boxes
        if "trace" not in case:
            iy = intervals([graph[k][0][0] for k in graph])
            ix = intervals([graph[k][0][1] for k in graph])
            boxes = [tuple(case["box"])] if "box" in case else [(a[0], b[0], a[1], b[1]) for a in iy for b in ix]
            for bb in boxes:
                res["st"] += 1
                got = cmp(f"all_nodes(bb={bb})", lambda: norm_nodes(im.all_nodes(bb=bb)), lambda: norm_nodes(sm.all_nodes(bb=bb)), box=list(bb))
                cmp(f"all_nodes(bb={bb}) [single inserts]", lambda: norm_nodes(im.all_nodes(bb=bb)), lambda: norm_nodes(sm1.all_nodes(bb=bb)), box=list(bb))
                cmp(f"all_nodes(bb={bb}) [deferred index]", lambda: norm_nodes(im.all_nodes(bb=bb)), lambda: norm_nodes(sm3.all_nodes(bb=bb)), box=list(bb))
                truth = norm_nodes((k, v[0]) for k, v in graph.items() if bb[0] <= v[0][0] <= bb[2] and bb[1] <= v[0][1] <= bb[3])
                if got is not None and got != truth:
                    bad(f"all_nodes(bb={bb}) = {got}, nodes inside the closed box are {truth}", box=list(bb))
                onside = any(v[0][0] in (bb[0], bb[2]) or v[0][1] in (bb[1], bb[3]) for v in graph.values())
                if 0 < len(truth) < len(graph) or onside:
                    res["nt"] += 1
                outs.add(("box", len(truth), len(graph)))
        # matching
        if "box" not in case:
            maxT = 3 if (n <= 3 or case.get("tier") == "thorough") else 2
            if "trace" in case:
                traces = [[tuple(p) for p in case["trace"]]]
                cfgs = [tuple(case["cfg"])]
            else:
                traces = [list(t) for T in range(1, maxT + 1) for t in itertools.product(OBS, repeat=T)]
                cfgs = CONFIGS
            for trace in traces:
                for kind, ne in cfgs:
                    res["st"] += 1
                    r = []
                    for mp in (im, sm, sm1, sm3):
                        res["n"] += 1
                        if kind == "simple":
                            m = SimpleMatcher(mp, non_emitting_states=ne, only_edges=True, obs_noise=1.0)
                        else:
                            m = DistanceMatcher(mp, non_emitting_states=ne, obs_noise=1.0)
                        try:
                            states, idx = m.match(list(trace))
                            lb = m.lattice_best
                            r.append((idx, None if not lb else lb[-1].logprob, len(states)))
                        except Exception as exc:  # noqa
                            r.append(("EXC", repr(exc), 0))
                    res["tr"] += 1
                    res["tv"] += 1
                    a = r[0]
                    for b, how in ((r[1], "SQLite (bulk inserts)"), (r[2], "SQLite (single inserts)"), (r[3], "SQLite (deferred index)")):
                        same = a[0] == b[0] and ((a[1] is None and b[1] is None) or (
                            a[1] is not None and b[1] is not None and not isinstance(a[1], str) and not isinstance(b[1], str)
                            and abs(a[1] - b[1]) <= 1e-9 * max(1.0, abs(a[1]))))
                        if not same:
                            bad(f"match({trace}) with {kind}, non_emitting={ne}: in-memory (index, logprob) = {a[:2]}, {how} = {b[:2]}",
                                trace=trace, cfg=[kind, ne])
                    if a[2]:
                        res["nt"] += 1
                    outs.add(("m", a[0], None if a[1] is None or isinstance(a[1], str) else round(a[1], 9)))
    finally:
        maps.close(sm)
        maps.close(sm1)
        maps.close(sm3)
    res["out"] = sorted(outs, key=repr)
    return res


def describe(case):
    d = {"graph": al.describe_graph(al.graph_from_mask(case["n"], case["mask"], COORDS[case["coords"]]))}
    for k in ("box", "trace", "cfg"):
        if k in case:
            d[k] = case[k]
    return d
