"""C07 — width pruning is sound, widening is monotone.

Three layers: (1) LatticeColumn driven directly with synthetic entries: all small columns x prune arguments, and a
breadth-first search over upsert/prune/set_delayed sequences against a reference column; (2) runs x W: the expanded
set at the moment of expansion and in the final lattice, pruned vs unpruned; (3) width histories on one matcher."""
import collections
import itertools

from mc import bind  # noqa: F401
from mc import alphabet as al
from mc import maps
from mc import mspace as ms
from mc.engine import fp
from checks import _pathspace as ps
import leuvenmapmatching.matcher.base as mbase
from leuvenmapmatching.matcher.base import LatticeColumn, BaseMatching, BaseMatcher
from leuvenmapmatching.util.segment import Segment

ID = "C07"
TITLE = "Width pruning is sound and widening is monotone"
MANIFEST = {
    "text": "(1) Seam: every multiset of <= 5 synthetic lattice entries with scores in {-1,-2,-3} (ties included), delayed in {0,1,2}, at "
            "most one stopped, is pruned with every W in {1,2,3}, round in {0,1}, threshold in {None,-1,-2,-3} on the real "
            "LatticeColumn and compared with the specification (top-W plus ties minus below-threshold are active, nothing else, no "
            "postponed entry beats an active one, returned threshold, stopped entries untouched); plus a breadth-first search (depth "
            "<= 3/4) over upsert/prune/set_delayed sequences against a reference column (a better candidate re-activates its entry). "
            "(2) Runs: for every input of the slice, 3 families x non-emitting on/off x 2 cut-off sets and W in {1,2,3}: the entries "
            "expanded at the moment a column is expanded (observed by wrapping the expansion method from the harness) and the expanded "
            "entries of every layer of the final lattice are among the W most probable live ones plus exact ties and no postponed live "
            "entry is more probable; pruned index <= unpruned index, complete pruned probability <= unpruned, and W >= number of "
            "candidates reproduces the unpruned canonical result exactly. (3) Histories: every increasing width sequence of length "
            "<= 3 over {1,2,3,5,8} applied with increase_max_lattice_width: the index never decreases and, between complete matches, "
            "the best probability never decreases.",
    "note": "Trusted: the specification of prune as transcribed in this file; the moment-of-expansion observation wraps "
            "BaseMatcher._match_states at run time (if the method disappears in a refactoring the part is reported as not covered, "
            "the final-lattice form uses only the public lattice). Lattice entries are compared by identity only.",
    "technique": "exhaustive enumeration of a synthetic seam, explicit-state BFS over seam operation sequences, bounded-exhaustive runs and width histories",
}
MANIFEST["text"] += " " + (
    'Added after the seeding waves: in one-shot runs no postponed entry may have a successor; known findings D16 (two forms) and D19 are recognised by structural predicates on the pruned and the unpruned lattice. Third session: at the moment of expansion every live edge candidate scheduled for the round must actually be handed to the successor generation (a probe on next(); staying on the edge is unconditional); at the end of every width history of the emitting-only configurations one more widening to a width no column reaches must coincide with the unpruned run.')
BUDGET = {"quick": 900, "thorough": 3000}
RULE = ("states = synthetic columns / distinct seam states / lattice layers inspected, transitions = prune calls, seam operations and "
        "matcher runs, traces validated = pruned-vs-unpruned and widening comparisons; non-trivial = some candidate was actually "
        "postponed; outcomes = canonical results.")
ASSUMPTIONS = ["probabilities compared with 1e-9 relative slack; 'coincides' compares index, probability and path keys exactly"]
SCORES = [-1.0, -2.0, -3.0]


def space(tier):
    return {"seam_entries": "<= 5", "scores": SCORES, "W": [1, 2, 3], "seam_sequence_depth": 3 if tier == "quick" else 4,
            "run_widths": [1, 2, 3], "width_histories": "increasing sequences of length <= 3 over {1,2,3,5,8}"}


def cases(tier):
    for n in range(0, 6):
        for sc in itertools.combinations_with_replacement(SCORES, n):
            yield {"kind": "seam", "scores": list(sc)}
    for first in seam_ops():
        yield {"kind": "seq", "first": first, "depth": 3 if tier == "quick" else 4}
    lvl = "n4e3" if tier == "quick" else "n4e4"
    for gs in ms.graph_slice(lvl):
        if gs[1] < 4 or gs[0] == "GENERIC" or tier == "thorough":
            yield {"kind": "run", "gs": list(gs), "slice": "n3" if gs[1] < 4 else "n4", "T": 3 if gs[1] < 4 else 2}
    for name, pos, g in ms.special_graphs():
        yield {"kind": "run", "gs": ms.explicit(g), "pos": pos, "slice": "special", "name": name}
    for gs in ms.graph_slice("n3" if tier == "quick" else "n4e4"):
        if al.nedges(gs[2]) >= 4:
            yield {"kind": "widen", "gs": list(gs), "slice": "hist", "T": 3}
    for name, pos, g in ms.special_graphs():
        yield {"kind": "widen", "gs": ms.explicit(g), "pos": pos, "slice": "hist-special", "name": name, "T": 3}
    # extensions of a width-limited matcher: match a prefix, then match(longer, expand=True)
    for gs in ms.graph_slice("n3" if tier == "quick" else "n4e4"):
        if al.nedges(gs[2]) >= 4:
            yield {"kind": "extend", "gs": list(gs), "slice": "hist", "T": 3}
    for name, pos, g in ms.special_graphs():
        yield {"kind": "extend", "gs": ms.explicit(g), "pos": pos, "slice": "hist-special", "name": name, "T": 3}


# ------------------------------------------------------------------ layer 1: the seam
def mk_entry(i, score, delayed, stop):
    return BaseMatching(None, Segment(i, (0, 0), i + 100, (1, 1)), Segment("O0", (0, 0)), logprob=score, obs=0, obs_ne=0,
                        stop=stop, delayed=delayed)


def spec_prune(ents, W, upto, thr):
    """ents: list of [score, delayed, stop]; specification of prune. -> (new delayed list, returned threshold)"""
    live = [i for i, e in enumerate(ents) if not e[2]]
    newd = [e[1] for e in ents]
    if W is None or len(live) <= W:
        return newd, thr
    s = sorted((ents[i][0] for i in live), reverse=True)
    cut = s[W - 1]
    keep = [i for i in live if ents[i][0] >= cut]
    if thr is not None:
        keep = [i for i in keep if ents[i][0] >= thr]
    for i in live:
        if i in keep:
            if newd[i] > upto:
                newd[i] = upto
        elif newd[i] <= upto:
            newd[i] = upto + 1
    ret = min(ents[i][0] for i in keep) if keep else thr
    return newd, ret


def run_seam(case, res):
    sc = case["scores"]
    n = len(sc)
    outs = set()
    for dl in itertools.product((0, 1, 2), repeat=n):
        for st in itertools.product((False, True), repeat=n):
            if sum(st) > 1:
                continue
            for W in (1, 2, 3):
                for upto in (0, 1):
                    for thr in (None, -1.0, -2.0, -3.0):
                        if "only" in case and case["only"] != [list(dl), list(st), W, upto, thr]:
                            continue
                        col = LatticeColumn(0)
                        es = []
                        for i in range(n):
                            e = mk_entry(i, sc[i], dl[i], st[i])
                            col.upsert(e)
                            es.append(e)
                        try:
                            ret = col.prune(0, W, upto, thr)
                        except Exception as exc:  # noqa
                            ret = exc
                        res["n"] += 1
                        res["st"] += 1
                        res["tr"] += 1
                        res["tv"] += 1
                        ents = [[sc[i], dl[i], st[i]] for i in range(n)]
                        exp_d, exp_ret = spec_prune(ents, W, upto, thr)
                        got_d = [e.delayed for e in es]
                        if sum(1 for x in st if not x) > W:
                            res["nt"] += 1
                        msgs = []
                        if isinstance(ret, Exception):
                            msgs.append(f"prune raised {ret!r}")
                        else:
                            if got_d != exp_d:
                                msgs.append(f"delayed flags after prune {got_d} != specification {exp_d}")
                            if ret != exp_ret:
                                msgs.append(f"returned threshold {ret} != specification {exp_ret}")
                            if [e.stop for e in es] != list(st) or [e.logprob for e in es] != list(sc):
                                msgs.append("prune changed stop flags or scores")
                            live = [e for e in es if not e.stop]
                            now = [e for e in live if e.delayed <= upto]
                            later = [e for e in live if e.delayed > upto]
                            if len(live) > W and now and later and max(e.logprob for e in later) > min(e.logprob for e in now):
                                msgs.append("a postponed entry is more probable than an active one")
                        outs.add((tuple(got_d), None if isinstance(ret, Exception) else ret))
                        for msg in msgs:
                            res["v"].append({"msg": f"LatticeColumn with (score, delayed, stop) {ents}, prune(W={W}, round={upto}, thr={thr}): {msg}",
                                             "case": {"kind": "seam", "scores": sc, "only": [list(dl), list(st), W, upto, thr]}})
    res["out"] = sorted(outs, key=repr)[:500]


def seam_ops():
    ops = []
    for key in (0, 1, 2):
        for score in SCORES:
            for d in (0, 1):
                ops.append(["U", key, score, d, False])
        ops.append(["U", key, -2.0, 0, True])
    for W in (1, 2):
        for upto in (0, 1):
            for thr in (None, -2.0):
                ops.append(["P", W, upto, thr])
    for d in (0, 1):
        ops.append(["S", d])
    return ops


def seam_apply(col, ref, op):
    """Apply op to the real column and to the reference dict key -> [score, delayed, stop]; -> list of messages."""
    msgs = []
    if op[0] == "U":
        _, key, score, d, stop = op
        e = mk_entry(key, score, d, stop)
        col.upsert(e)
        if key not in ref:
            ref[key] = [[score, d, stop]]          # list of admissible values (ties may be broken either way)
        else:
            new = []
            for (s0, d0, st0) in ref[key]:
                if (st0 and not stop) or (st0 == stop and s0 < score):
                    new.append([score, d, stop])
                elif st0 == stop and s0 == score:
                    new.append([s0, d0, st0])
                    new.append([score, d, stop])      # equally probable: keeping either is within the contract
                else:
                    new.append([s0, d0, st0])
            ref[key] = [list(x) for x in {tuple(x) for x in new}]
    elif op[0] == "P":
        _, W, upto, thr = op
        ret = col.prune(0, W, upto, thr)
        # the reference is a set of admissible columns (product over tie alternatives)
        keys = sorted(ref)
        alts = []
        for combo in itertools.product(*[ref[k] for k in keys]):
            ents = [list(x) for x in combo]
            nd, r = spec_prune(ents, W, upto, thr)
            alts.append(([[e[0], nd[i], e[2]] for i, e in enumerate(ents)], r))
        got = [[col.o[0][(k, k + 100, 0, 0)].logprob, col.o[0][(k, k + 100, 0, 0)].delayed, col.o[0][(k, k + 100, 0, 0)].stop] for k in keys] \
            if col.o else []
        ok = [a for a in alts if a[0] == got and a[1] == ret]
        if not ok:
            msgs.append(f"prune(W={W}, round={upto}, thr={thr}) gave {got} returning {ret}; specification allows {alts[:3]}")
            ok = alts[:1]
        for i, k in enumerate(keys):
            ref[k] = [ok[0][0][i]]
        return msgs
    else:
        col.set_delayed(op[1])
        for k in ref:
            ref[k] = [list(x) for x in {(s, op[1], st) for s, _, st in ref[k]}]
    # compare
    for k, alts in ref.items():
        e = col.o[0].get((k, k + 100, 0, 0)) if col.o else None
        if e is None:
            msgs.append(f"entry {k} missing from the column")
            continue
        got = [e.logprob, e.delayed, e.stop]
        if got not in alts:
            msgs.append(f"after {op}: entry {k} is (score, delayed, stop) = {got}, reference allows {alts}")
            ref[k] = [got]
        else:
            ref[k] = [got]
    return msgs


def run_seq(case, res):
    ops = seam_ops()
    seen = set()
    frontier = collections.deque([[case["first"]]] if "hist" not in case else [case["hist"]])
    outs = set()
    while frontier:
        hist = frontier.popleft()
        col = LatticeColumn(0)
        ref = {}
        msgs = []
        for op in hist:
            try:
                msgs = seam_apply(col, ref, op)
            except Exception as exc:  # noqa
                msgs = [f"raised {exc!r}"]
                break
            res["tr"] += 1
        res["n"] += 1
        for msg in msgs:
            res["v"].append({"msg": f"LatticeColumn operation sequence {hist}: {msg}", "case": {"kind": "seq", "hist": hist, "first": hist[0], "depth": len(hist)}})
        snap = tuple(sorted((k, e.logprob, e.delayed, e.stop) for k, e in (col.o[0].items() if col.o else ())))
        key = fp(snap)
        outs.add(key)
        if key in seen:
            continue
        seen.add(key)
        if any(e.delayed > 0 for e in (col.o[0].values() if col.o else ())):
            res["nt"] += 1
        if "hist" in case or len(hist) >= case["depth"]:
            continue
        for op in ops:
            frontier.append(hist + [op])
    res["st"] += len(seen)
    res["tv"] += len(seen)
    res["out"] = sorted(outs)[:500]


# ------------------------------------------------------------------ layer 2: runs
RUNCFG = [dict(fam=f, ne=ne, avoid=True, **ms.CUTS[cut]) for f in ms.FAMS for ne in (False, True) for cut in ("none", "mpn0.3")]
N4CFG = [dict(fam=f, ne=True, avoid=True) for f in ms.FAMS] + [dict(fam="D", ne=False, avoid=True, min_prob_norm=0.3)]


class ExpansionProbe:
    """Wraps BaseMatcher._match_states (from the harness) to look at the column at the moment it is expanded."""
    def __init__(self):
        self.orig = getattr(BaseMatcher, "_match_states", None)
        self.msgs = []
        self.calls = 0
        self.touched = None

    def __enter__(self):
        probe = self
        if self.orig is None:
            return self

        def wrapped(self_m, obs_idx, prev_lattice=None, *a, **kw):
            if prev_lattice is None and self_m.max_lattice_width:
                probe.calls += 1
                W = self_m.max_lattice_width
                col = self_m.lattice[obs_idx - 1]
                live = [e for e in col.values(0) if not e.stop]
                now = [e for e in live if e.delayed == self_m.expand_now]
                done = [e for e in live if e.delayed <= self_m.expand_now]
                later = [e for e in live if e.delayed > self_m.expand_now]
                if len(live) > W and done:
                    s = sorted((e.logprob for e in live), reverse=True)
                    cut = s[W - 1]
                    if any(e.logprob < cut for e in now):
                        probe.msgs.append(f"observation {obs_idx - 1}, round {self_m.expand_now}: expanding "
                                          f"{[(e.key, e.logprob) for e in now]} although the {W} most probable live candidates end at {cut} "
                                          f"(live: {sorted(((e.logprob, e.delayed) for e in live), reverse=True)})")
                    if later and now and max(e.logprob for e in later) > min(e.logprob for e in now):
                        probe.msgs.append(f"observation {obs_idx - 1}, round {self_m.expand_now}: a postponed candidate "
                                          f"({max(e.logprob for e in later)}) is more probable than an expanded one ({min(e.logprob for e in now)})")
                # "are expanded": every live edge candidate scheduled for this round must actually be handed to the
                # successor generation ("stay on the edge" is unconditional, so its next() is called at least once)
                probe.touched = set()
                ret = probe.orig(self_m, obs_idx, prev_lattice, *a, **kw)
                for e in now:
                    if e.edge_m.l2 is not None and id(e) not in probe.touched:
                        probe.msgs.append(f"observation {obs_idx - 1}, round {self_m.expand_now}: candidate {e.key} ({e.logprob}) is live and scheduled "
                                          f"for this round (among the {W} most probable plus ties) but no successor was generated from it")
                        break
                probe.touched = None
                return ret
            return probe.orig(self_m, obs_idx, prev_lattice, *a, **kw)
        BaseMatcher._match_states = wrapped
        orig_next = mbase.BaseMatching.next
        self.orig_next = orig_next

        def next_probe(self_e, *a, **kw):
            if probe.touched is not None:
                probe.touched.add(id(self_e))
            return orig_next(self_e, *a, **kw)
        mbase.BaseMatching.next = next_probe
        return self

    def __exit__(self, *exc):
        if self.orig is not None:
            BaseMatcher._match_states = self.orig
            mbase.BaseMatching.next = self.orig_next


def final_lattice_msgs(m, W, last):
    msgs = []
    postponed = False
    for i in range(last + 1):
        col = m.lattice[i]
        for k, layer in enumerate(col.o):
            live = [e for e in layer.values() if not e.stop]
            if not live:
                continue
            exp = [e for e in live if e.delayed <= m.expand_now]
            post = [e for e in live if e.delayed > m.expand_now]
            postponed |= bool(post)
            if exp and post and max(p.logprob for p in post) > min(e.logprob for e in exp):
                msgs.append(f"column {i} layer {k}: postponed entry ({max(p.logprob for p in post)}) more probable than an expanded one "
                            f"({min(e.logprob for e in exp)})")
            if len(exp) > W:
                s = sorted((e.logprob for e in live), reverse=True)
                if any(e.logprob < s[W - 1] for e in exp):
                    msgs.append(f"column {i} layer {k}: {len(exp)} entries expanded with W={W}, not all tied with the W-th best {s[W - 1]}: "
                                f"{sorted(((e.logprob, e.delayed) for e in live), reverse=True)}")
    # one-shot run: whatever has a successor in the lattice was expanded, so it must not be a postponed candidate
    # (only in round 0: after a widening an already expanded entry can legitimately be postponed again)
    if m.expand_now == 0:
        for i in range(last + 1):
            for k, layer in enumerate(m.lattice[i].o):
                for e in layer.values():
                    for p in list(e.prev) + list(e.prev_other):
                        if not p.stop and p.delayed > 0:
                            msgs.append(f"{p.key} is postponed (delayed={p.delayed}) but was expanded: {e.key} is its successor")
                            return msgs, postponed
    return msgs, postponed


def run_runs(case, res):
    graph = ps.graph_of(case)
    pos = ps.pos_of(case)
    egraph = ms.explicit(graph)
    mp = maps.inmem(graph)
    outs = set()
    traces = ps.traces_of(dict(case, slice=case["slice"] if case["slice"] != "n3" else "n3"), graph) if "trace" in case or case["slice"] == "special" \
        else ps.trace_set(pos, case["T"], n_obs=3 if case["slice"] == "n3" else 4)
    cfgs = [case["cfg"]] if "cfg" in case else (RUNCFG if case["slice"] in ("n3", "special") else N4CFG)
    for trace in traces:
        T = len(trace)
        for c in cfgs:
            where = f"{al.describe_graph(graph)} trace {trace} cfg {c}"
            mini = {"kind": "run", "gs": egraph, "pos": pos, "slice": case["slice"], "trace": trace, "cfg": c}
            mu = ms.make_matcher(mp, dict(c, width=None))
            try:
                ru = mu.match(list(trace))
            except Exception as exc:  # noqa
                res["v"].append({"msg": f"{where}: unpruned run raised {exc!r}", "case": mini})
                continue
            res["n"] += 1
            cu = ms.canon(mu, ru)
            eu = -1 if not ru[0] else ru[1]
            ncand = max((len(layer) for col in mu.lattice.values() for layer in col.o), default=0)
            for W in (1, 2, 3, ncand + 1):
                with ExpansionProbe() as probe:
                    mw = ms.make_matcher(mp, dict(c, width=W))
                    try:
                        rw = mw.match(list(trace))
                    except Exception as exc:  # noqa
                        rw = exc
                res["n"] += 1
                res["tr"] += 1
                res["tv"] += 1
                if isinstance(rw, Exception) or not (isinstance(rw, tuple) and len(rw) == 2):
                    res["v"].append({"msg": f"{where} W={W}: gave {rw!r}", "case": mini})
                    continue
                cw = ms.canon(mw, rw)
                ew = -1 if not rw[0] else rw[1]
                msgs = list(probe.msgs[:2])
                fm, postponed = final_lattice_msgs(mw, W, max(ew, 0))
                res["st"] += sum(len(col.o) for col in mw.lattice.values())
                msgs += fm[:2]
                if postponed:
                    res["nt"] += 1
                known = None
                known19 = None
                if ew > eu:
                    text = f"pruned run matches up to {ew}, unpruned only up to {eu}"
                    blk = d16_blocked(mw, mu) if c.get("ne") else None
                    sub = d19_suboptimal_substructure(mw, mu, c) if not blk else None
                    if blk:
                        known = (text + f"; non-emitting state {blk[0]} of the pruned best path is missing from the unpruned lattice, where "
                                        f"the same road state is already present for that observation gap as {blk[1]}")
                    elif sub:
                        known19 = (text + f"; on the pruned best path {sub[0]} -> {sub[1]}: the unpruned lattice holds a parent that is at least as "
                                          f"probable ({sub[2]} vs {sub[3]}) but its child is less probable ({sub[4]} vs {sub[5]}); history-dependent term: {sub[6]}")
                    else:
                        msgs.append(text)
                if ew == eu == T - 1 and cw[1] is not None and cu[1] is not None and cw[1] > cu[1] + 1e-9 * max(1.0, abs(cu[1])):
                    text = f"pruned run reports log-probability {cw[1]} > unpruned {cu[1]}"
                    blk = d16_blocked(mw, mu) if c.get("ne") else None
                    sub = d19_suboptimal_substructure(mw, mu, c) if not blk else None
                    if blk:
                        known = (text + f"; non-emitting state {blk[0]} of the pruned best path is missing from the unpruned lattice, where "
                                        f"the same road state is already present for that observation gap as {blk[1]}")
                    elif sub:
                        known19 = (text + f"; on the pruned best path {sub[0]} -> {sub[1]}: the unpruned lattice holds a parent that is at least as "
                                          f"probable ({sub[2]} vs {sub[3]}) but its child is less probable ({sub[4]} vs {sub[5]}); history-dependent term: {sub[6]}")
                    else:
                        msgs.append(text)
                if W > ncand and cw != cu:
                    msgs.append(f"W={W} is at least the number of candidates ({ncand}) but the result {cw[:3]} differs from the unpruned {cu[:3]}")
                outs.add(cw[:2])
                for msg in msgs:
                    res["v"].append({"msg": f"{where} W={W}: {msg}", "case": mini})
                if known and not msgs:
                    res["k"].append({"id": "D16", "msg": f"{where} W={W}: {known}", "case": mini})
                if known19 and not msgs:
                    res["k"].append({"id": "D19", "msg": f"{where} W={W}: {known19}", "case": mini})
    res["out"] = sorted(outs, key=repr)[:1000]


def d19_suboptimal_substructure(mw, mu, cfg, tol=1e-12):
    """D19 predicate: consecutive states (p, c) of the pruned best path such that the UNPRUNED lattice holds an entry for
    p that is at least as probable as the pruned one, yet its entry for c is less probable, and the step p -> c carries a
    HISTORY-DEPENDENT term:
      (a) distance family, non-emitting on, c or p non-emitting: the transition uses the distances accumulated along the
          predecessor chain (d_o, d_s);
      (b) avoid_goingback=True: the unpruned p was reached from c's road state, so p -> c pays the going-back penalty there,
          while on the pruned path p was reached from elsewhere.
    In both cases the best candidate per lattice state is not an optimal sub-structure."""
    def find(m, key):
        col = m.lattice.get(key[-2])
        if col is None or key[-1] >= len(col.o):
            return None
        return col.o[key[-1]].get(key)
    lb = mw.lattice_best or []
    for j, (p, c) in enumerate(zip(lb, lb[1:])):
        pu, cu_ = find(mu, p.key), find(mu, c.key)
        if pu is None or cu_ is None:
            continue
        if not (pu.logprob >= p.logprob - tol and cu_.logprob < c.logprob - 1e-9):
            continue
        why = None
        if cfg.get("fam") == "D" and cfg.get("ne") and (c.obs_ne or p.obs_ne):
            why = "accumulated distances"
        elif cfg.get("avoid"):
            pp_u = next(iter(pu.prev), None)
            pp_w = lb[j - 1] if j > 0 else None
            if pp_u is not None and pp_u.shortkey == c.shortkey and (pp_w is None or pp_w.shortkey != c.shortkey):
                why = "going-back penalty"
        if why:
            return (p.key, c.key, round(pu.logprob, 6), round(p.logprob, 6), round(cu_.logprob, 6), round(c.logprob, 6), why)
    return None


def d16_blocked(mw, mu):
    """D16 predicate: a non-emitting state (s, i, k) on the pruned run's best path does not exist in the unpruned lattice,
    while the unpruned lattice holds the same road state s for the same observation gap at another non-emitting depth
    (s, i, k' != k) or as the emitting candidate (s, i+1, 0) -- the entry that makes the non-emitting search skip s."""
    for e in mw.lattice_best or ():
        if e.obs_ne == 0:
            continue
        col = mu.lattice.get(e.obs)
        if col is None:
            continue
        if e.obs_ne < len(col.o) and e.key in col.o[e.obs_ne]:
            continue
        sk = e.shortkey
        for k2, layer in enumerate(col.o):
            if k2 not in (0, e.obs_ne):
                for o in layer.values():
                    if o.shortkey == sk:
                        return (e.key, o.key)
        nxt = mu.lattice.get(e.obs + 1)
        if nxt is not None and nxt.o:
            for o in nxt.o[0].values():
                if o.shortkey == sk:
                    return (e.key, o.key)
    # second form of the same guard problem (node states): linking a non-emitting chain to the next observation is
    # compared with `lattice_best[state]`, which by then holds a NON-EMITTING entry of that road state, not the emitting
    # candidate: p (non-emitting) -> c (emitting) on the pruned best path, the unpruned lattice has p at least as probable
    # and c less probable, and holds c's road state inside the same gap at some non-emitting depth
    def find(m, key):
        col = m.lattice.get(key[-2])
        if col is None or key[-1] >= len(col.o):
            return None
        return col.o[key[-1]].get(key)
    lb = mw.lattice_best or []
    for p, c in zip(lb, lb[1:]):
        if not (p.obs_ne > 0 and c.obs_ne == 0):
            continue
        pu, cu_ = find(mu, p.key), find(mu, c.key)
        if pu is None or cu_ is None or not (pu.logprob >= p.logprob - 1e-12 and cu_.logprob < c.logprob - 1e-9):
            continue
        col = mu.lattice.get(p.obs)
        for k2, layer in enumerate(col.o if col is not None else ()):
            if k2 >= 1:
                for o in layer.values():
                    if o.shortkey == c.shortkey:
                        return (c.key, o.key)
    return None


# ------------------------------------------------------------------ layer 3: width histories
WIDTHS = [1, 2, 3, 5, 8]
HCFG = [dict(fam=f, ne=ne, avoid=True) for f in ms.FAMS for ne in (False, True)]


def width_sequences():
    for n in (2, 3):
        for seq in itertools.combinations(WIDTHS, n):
            yield list(seq)


def run_widen(case, res):
    graph = ps.graph_of(case)
    pos = ps.pos_of(case)
    egraph = ms.explicit(graph)
    mp = maps.inmem(graph)
    outs = set()
    traces = ps.traces_of(case, graph)
    cfgs = [case["cfg"]] if "cfg" in case else HCFG
    seqs = [case["seq"]] if "seq" in case else list(width_sequences())
    unpruned = {}
    for trace in traces:
        T = len(trace)
        for c in cfgs:
            for seq in seqs:
                m = ms.make_matcher(mp, dict(c, width=seq[0]))
                mini = {"kind": "widen", "gs": egraph, "pos": pos, "slice": case["slice"], "trace": trace, "cfg": c, "seq": seq}
                where = f"{al.describe_graph(graph)} trace {trace} cfg {c} widths {seq}"
                prev = None
                for j, w in enumerate(seq):
                    with ExpansionProbe() as probe:
                        try:
                            r = m.match(list(trace)) if j == 0 else m.increase_max_lattice_width(w)
                        except Exception as exc:  # noqa
                            r = exc
                    res["n"] += 1
                    res["tr"] += 1
                    if isinstance(r, Exception) or not (isinstance(r, tuple) and len(r) == 2):
                        res["v"].append({"msg": f"{where}: step {j} gave {r!r}", "case": mini})
                        break
                    cur = ms.canon(m, r)
                    e = -1 if not r[0] else r[1]
                    res["st"] += 1
                    for msg in probe.msgs[:1]:
                        res["v"].append({"msg": f"{where}: step {j}: {msg}", "case": mini})
                    if prev is not None:
                        res["tv"] += 1
                        if e < prev[0]:
                            res["v"].append({"msg": f"{where}: widening to {w} shortened the match from index {prev[0]} to {e}", "case": mini})
                        elif e == prev[0] == T - 1 and cur[1] < prev[1] - 1e-9 * max(1.0, abs(prev[1])):
                            res["v"].append({"msg": f"{where}: widening to {w} lowered the best log-probability from {prev[1]} to {cur[1]}", "case": mini})
                        if (e, cur[1]) != prev:
                            res["nt"] += 1
                    prev = (e, cur[1])
                    outs.add((e, cur[1]))
                else:
                    # "coincides with the unpruned run once W is at least the number of candidates", at the end of a widening
                    # HISTORY: one more widening, to a width no column reaches.  Decided for the emitting-only configurations;
                    # with non-emitting states the known findings D14 / D16 / D19 (a pruned run can beat the unpruned one, stale
                    # scores after widening) make the comparison undecidable without their predicates (52 of 9 408 sampled
                    # histories differ on the unchanged tree, all with non-emitting states, none without).
                    if not c.get("ne"):
                        key = (tuple(trace), repr(c))
                        if key not in unpruned:
                            mu = ms.make_matcher(mp, dict(c, width=None))
                            try:
                                unpruned[key] = ms.canon(mu, mu.match(list(trace)))[:2]
                            except Exception as exc:  # noqa
                                unpruned[key] = ("EXC", repr(exc))
                            res["n"] += 1
                        try:
                            rf = m.increase_max_lattice_width(1000)
                            full = ms.canon(m, rf)[:2]
                        except Exception as exc:  # noqa
                            full = ("EXC", repr(exc))
                        res["n"] += 1
                        res["tr"] += 1
                        res["tv"] += 1
                        u = unpruned[key]
                        same = full == u or (full[0] == u[0] and isinstance(full[1], float) and isinstance(u[1], float) and abs(full[1] - u[1]) <= 1e-9 * max(1.0, abs(u[1])))
                        if not same:
                            res["v"].append({"msg": f"{where}, then width 1000: result {full} differs from the unpruned run {u} although the width exceeds "
                                                    f"every column", "case": mini})
    res["out"] = sorted(outs, key=repr)[:1000]


def run_extend(case, res):
    """match(prefix) then match(longer, expand=True) on a width-limited matcher: at every expansion of the extension round
    only the W most probable live candidates (plus ties) of a column may be expanded."""
    graph = ps.graph_of(case)
    pos = ps.pos_of(case)
    egraph = ms.explicit(graph)
    mp = maps.inmem(graph)
    outs = set()
    traces = ps.traces_of(case, graph)
    cfgs = [case["cfg"]] if "cfg" in case else [dict(c, width=w) for c in HCFG for w in (1, 2)]
    for trace in traces:
        T = len(trace)
        cuts = [case["cut"]] if "cut" in case else list(range(1, T))
        for c in cfgs:
            for k in cuts:
                m = ms.make_matcher(mp, c)
                mini = {"kind": "extend", "gs": egraph, "pos": pos, "slice": case["slice"], "trace": trace, "cfg": c, "cut": k}
                where = f"{al.describe_graph(graph)} trace {trace} cfg {c}: match(first {k}), then match(all {T}, expand=True)"
                try:
                    m.match(list(trace[:k]))
                    with ExpansionProbe() as probe:
                        r = m.match(list(trace), expand=True)
                except Exception as exc:  # noqa
                    res["v"].append({"msg": f"{where}: raised {exc!r}", "case": mini})
                    continue
                res["n"] += 2
                res["tr"] += 2
                res["st"] += 1
                res["tv"] += 1
                if probe.calls:
                    res["nt"] += 1
                for msg in probe.msgs[:2]:
                    res["v"].append({"msg": f"{where}: {msg}", "case": mini})
                outs.add((r[1], len(m.lattice_best or ())))
    res["out"] = sorted(outs, key=repr)[:500]


def run_case(case):
    res = dict(n=0, st=0, tr=0, tv=0, nt=0, out=[], v=[], k=[])
    {"seam": run_seam, "seq": run_seq, "run": run_runs, "widen": run_widen, "extend": run_extend}[case["kind"]](case, res)
    res["v"] = res["v"][:30]
    return res


def describe(case):
    return case
