"""C03 — result aligned with the observations, truthful index."""
from mc import bind  # noqa: F401
from mc import mspace as ms
from mc.refmodel import Model, check_structure
from checks import _pathspace as ps

ID = "C03"
TITLE = "Result is aligned with the observations and the last index is truthful"
MANIFEST = {
    "text": "Over the shared graph/trace slice (all graphs on 2-3 nodes in two alphabets, 4-node graphs, named 4-5 node graphs) and a "
            "configuration list emphasising early stops (6 cut-off sets that stop at the first, second or last observation) x 3 families "
            "x non-emitting on/off x widths x unique in {False, True}, plus every history of depth <= 2/3 over {match prefix, extend, "
            "widen}: the best path starts at (obs 0, depth 0), every step goes to the next non-emitting depth or to the next observation "
            "at depth 0 (hence exactly one emitting state per matched observation and non-emitting states only in between), the "
            "returned list is the path's states (consecutive repeats collapsed iff unique), the index is the last observation with an "
            "emitting state and equals len-1 exactly when every observation has one, and ([], 0) is returned exactly when the reference "
            "finds no admissible start candidate.",
    "note": "Trusted: mc/refmodel.py (start-candidate rule of the documented model). Known finding D2 (in-memory start candidates with a "
            "finite initial radius) is recognised only when the empty result is exactly what the D2-restricted start set predicts. A "
            "trailing run of non-emitting states after the last matched observation is accepted (the statement does not forbid it).",
    "technique": "bounded-exhaustive enumeration of inputs x configurations and of operation histories with a structural invariant on every result",
}
MANIFEST["text"] += " " + (
    'Added after the seeding waves: the index must equal the last lattice column that holds a live emitting candidate (a fact of the lattice, not only of the returned path); traces of length 4 with an outlier in the middle; jump histories match / continue_with_distance / extend on the named graphs; the cut-off configurations additionally with the package logger at DEBUG (stopped candidates are then materialised in the lattice); histories whose calls ask for different forms of the state list (unique on one call, not on the next).')
BUDGET = {"quick": 900, "thorough": 3000}
RULE = ("states = path states inspected, transitions = path steps inspected, traces validated = results compared with the reference "
        "start-candidate rule; non-trivial = the match stopped early, is empty, or contains non-emitting states; outcomes = (index, "
        "path shape).")
ASSUMPTIONS = ["'empty iff no admissible start candidate' uses the documented start rule: distance < max_dist_init, <= max_dist, emission >= min_prob_norm"]

C = ps.cfg
MAIN = [C(f, ne, True, cut) for f in ms.FAMS for ne in (False, True) for cut in ms.CUTS] + \
       [C(f, True, True, cut, 1) for f in ms.FAMS for cut in ("none", "mpn0.3")] + \
       [C(f, True, True, "none", None, maxnb=1) for f in ms.FAMS] + [C("S", True, True, "md1.5", 1, maxnb=2)]
N4 = [C(f, True, True, cut) for f in ms.FAMS for cut in ("none", "md1.5", "mpn0.6")]
HIST = [C("D", True, True, "mpn0.3", 1), C("S", True, True, "md1.5", 1), C("SN", True, True, "none", 1), C("D", False, True, "md1.5", None)]


def cfgs_for(sl):
    return MAIN if sl in ("n3", "special") else N4


def space(tier):
    return {"configurations": len(MAIN), "configurations_n4": len(N4), "history_configurations": HIST, "unique": [False, True]}


def cases(tier):
    for c in ps.cases(tier, with_hist=True):
        c["tier"] = tier
        yield c
    # the same contract with the package logger at DEBUG (candidates that fail a cut-off are then kept as stopped entries,
    # so "is there a live candidate" and "is the column empty" are different questions), on the configurations that stop early
    for gs in ms.graph_slice("n3"):
        if gs[0] == "GENERIC" or tier == "thorough":
            yield {"kind": "run", "gs": list(gs), "slice": "n3", "T": 3, "tier": tier, "debug": True}
    for name, pos, g in ms.special_graphs():
        yield {"kind": "run", "gs": ms.explicit(g), "pos": pos, "slice": "special", "name": name, "tier": tier, "debug": True}
    # `unique` is an argument of every call: histories whose operations ask for different forms of the state list
    for hist in ([["M", 9, "u"], ["W", 2]], [["M", 9], ["W", 2, "u"]], [["M", 9, "u"], ["X", 9]], [["M", 2], ["X", 9, "u"], ["W", 3]],
                 [["M", 9, "u"], ["M", 9]], [["M", 9], ["X", 9, "u"]]):
        for name, pos, g in ms.special_graphs():
            yield {"kind": "hist", "gs": ms.explicit(g), "pos": pos, "slice": "hist-special", "name": name, "T": 3, "hist": hist, "tier": tier}
        for gs in ms.graph_slice("n3"):
            if gs[0] == "GENERIC" and bin(gs[2]).count("1") >= 3:
                yield {"kind": "hist", "gs": list(gs), "slice": "hist", "T": 3, "hist": hist, "tier": tier}
    # after an early stop: jump with continue_with_distance(), then extend - the result must still be aligned
    for hist in ([["M", 9], ["C", None], ["X", 9]], [["M", 9], ["C", 1.0], ["X", 9]]):
        for name, pos, g in ms.special_graphs():
            yield {"kind": "hist", "gs": ms.explicit(g), "pos": pos, "slice": "hist-special", "name": name, "T": 3, "hist": hist, "tier": tier}


DEBUG_CFGS = [C(f, ne, True, cut) for f in ms.FAMS for ne in (False, True) for cut in ("md1.5", "mpn0.6", "md2.5i1.1")]


def judge(m, r, graph, trace, c, unique, ctx):
    if ctx.get("op") and len(ctx["op"]) > 2 and ctx["op"][2] == "u":
        unique = True
    if isinstance(r, Exception):
        return [(None, f"raised {r!r}")] if not ctx["expand"] else []
    if ctx.get("op") and ctx["op"][0] == "C":
        return []
    out = []
    msgs = check_structure(m, trace, r, unique)
    lb = m.lattice_best or []
    if isinstance(r, tuple) and len(r) == 2 and (r[1] != len(trace) - 1 or not r[0] or any(e.obs_ne for e in lb)):
        out.append(("NT", ""))
    for msg in msgs:
        out.append((None, msg))
    # "the last observation that received an emitting state" / "the whole trace was matched" are facts about the
    # lattice, not only about the returned path: the index must be the last column that holds a live emitting candidate
    if isinstance(r, tuple) and len(r) == 2 and not msgs and r[0] and m.lattice:
        live_cols = [i for i, col in m.lattice.items() if i < len(trace) and any(not e.stop for e in col.values(0))]
        if live_cols:
            # columns are filled left to right: the matched prefix is the run of live columns starting at 0
            L = 0
            while L + 1 in live_cols:
                L += 1
            if r[1] != L:
                out.append((None, f"returned index {r[1]}, but live emitting candidates exist for observations 0..{L} "
                                  f"(trace length {len(trace)})"))
    # empty <=> no admissible start candidate (only meaningful for a run that (re)creates the start nodes)
    if isinstance(r, tuple) and len(r) == 2 and not msgs and not ctx["expand"]:
        model = Model(graph, c)
        starts = []
        for s in model.start_states():
            pi, ti, d = model.place(s, trace[0])
            if d < model.max_dist_init and d <= model.max_dist and model.lp_obs(d) >= model.minlp:
                starts.append(s)
        empty = len(r[0]) == 0
        if empty != (len(starts) == 0):
            fid = None
            if empty and model.only_edges and model.max_dist_init != float("inf"):
                r0, y0, x0 = model.max_dist_init, trace[0][0], trace[0][1]
                # (a start node within rounding of a box side may fall on either side: the smaller visible set decides)
                vis = [s for s in starts if abs(graph[s[0]][0][0] - y0) <= r0 - 1e-9 and abs(graph[s[0]][0][1] - x0) <= r0 - 1e-9]
                if not vis:
                    fid = "D2"
            out.append((fid, f"match returned {r} but the admissible start candidates for the first observation are {starts}"))
    return out


def run_case(case):
    res = dict(n=0, st=0, tr=0, tv=0, nt=0, out=[], v=[], k=[])
    depth = 3 if (case.get("tier") == "thorough" or case.get("slice") == "hist-special") else 2
    # unique=True doubles the runs; in the quick tier it is exercised on the GENERIC alphabet and the named graphs
    uq = (False, True) if (case.get("tier") == "thorough" or ps.pos_of(case) == "GENERIC") else (False,)
    if case.get("debug"):
        ms.set_debug(True)
        try:
            r = ps.run(case, (lambda sl: DEBUG_CFGS), judge, res, hist_cfgs=HIST, hist_depth=depth, uniques=(False,))
        finally:
            ms.set_debug(False)
        for v in r["v"]:
            v["case"]["debug"] = True
            v["msg"] = "[logger at DEBUG] " + v["msg"]
        for v in r["k"]:
            v["case"]["debug"] = True
        return r
    return ps.run(case, cfgs_for, judge, res, hist_cfgs=HIST, hist_depth=depth, uniques=uq)


def describe(case):
    return {k: case[k] for k in case if k != "tier"}
