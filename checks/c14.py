"""C14 — geodesic primitives agree with spherical geometry.

A finite lattice (not a sample) of anchors x bearings x segment lengths x query offsets; oracle = 3-D unit
vector geometry on the 6 371 000 m sphere (mc.refgeom), with tolerances derived in DESIGN.md section 4."""
import math

from mc import bind  # noqa: F401
from mc import refgeom as rg
from leuvenmapmatching.util import dist_latlon as dl

ID = "C14"
TITLE = "Geodesic primitives agree with spherical geometry"
MANIFEST = {
    "text": "A complete finite lattice of anchors (8 latitudes x 6 longitudes; thorough 16 x 12), 12 (24) bearings, 5 (10) segment "
            "lengths from 0.1 m to 5 km and 30 (60) query offsets per segment is executed on the real dist_latlon routines "
            "(distance, bearing, destination, point-to-segment in both orientations, segment-to-segment at 8 relative placements in "
            "4 orientations, box_around_point with 18 boundary probes) and compared with an independent 3-D vector computation.",
    "note": "Trusted: mc/refgeom.py (unit vectors, atan2 angles), CPython math. A lattice of the continuum, chosen to reach every "
            "branch (before/after/inside the segment, both signs of cross-track, zero-length segments); poles and antimeridian excluded "
            "as in the statement. Tolerances: 5 cm + 1e-6 d on distances, 25 cm on positions; segment-to-segment additionally "
            "3 extent^2 max(tan|lat|,0.05)/R for the documented local planar frame.",
    "technique": "bounded-exhaustive enumeration of a finite input lattice against an independent spherical reference model",
}
MANIFEST["text"] += " " + (
    'Added after the seeding waves: two more segment-pair placements whose closest pair is an end point of one segment and an interior point of the other.')
BUDGET = {"quick": 240, "thorough": 1500}
RULE = ("cases = blocks (latitude, longitude, segment length); each block enumerates all bearings x query offsets x placements. "
        "states = distinct (primitive, input) configurations evaluated, transitions = oracle comparisons, "
        "non-trivial = the projection is clamped to an end point, or the query is on the line, or the pair of segments "
        "crosses/touches/is parallel or collinear; outcomes = branch classes.")
ASSUMPTIONS = ["sphere radius 6371000 m", "tolerances as stated in DESIGN.md section 4 / C14",
               "segment-to-segment reference: 0 if the geodesic segments cross, else the minimum of the four end-point distances"]
R = rg.R_EARTH


def axes(tier):
    if tier == "quick":
        lats = [-59.9, -33.3, -0.4, 0.0, 12.5, 45.0, 50.86, 59.9]
        lons = [-170.0, -77.0, 0.0, 4.7, 120.3, 179.0]
        nb = 12
        lens = [0.1, 1.0, 30.0, 500.0, 5000.0]
        fas = [-1.5, -0.3, 0.0, 0.4, 1.0, 2.2]
        fcs = [-2.0, -0.2, 0.0, 0.5, 1.3]
    else:
        lats = [-59.9, -51.2, -33.3, -17.0, -5.1, -0.4, 0.0, 0.7, 7.3, 12.5, 23.4, 37.7, 45.0, 50.86, 55.5, 59.9]
        lons = [-170.0, -122.4, -77.0, -43.2, -0.1, 0.0, 4.7, 31.2, 77.6, 120.3, 151.2, 179.0]
        nb = 24
        lens = [0.1, 0.3, 1.0, 3.0, 10.0, 30.0, 100.0, 500.0, 2000.0, 5000.0]
        fas = [-3.0, -1.5, -0.3, -0.01, 0.0, 0.1, 0.4, 0.5, 0.99, 1.0, 1.01, 2.2]
        fcs = [-2.0, -0.2, 0.0, 0.5, 1.3]
    return lats, lons, nb, lens, fas, fcs


def space(tier):
    lats, lons, nb, lens, fas, fcs = axes(tier)
    return {"latitudes": lats, "longitudes": lons, "bearings": nb, "segment_lengths_m": lens,
            "along_offsets": fas, "cross_offsets": fcs, "segment_pair_placements": 8, "box_radii_m": [10, 100, 1000, 20000]}


def cases(tier):
    lats, lons, nb, lens, fas, fcs = axes(tier)
    for la in lats:
        for lo in lons:
            for L in lens:
                yield {"lat": la, "lon": lo, "L": L, "tier": tier}


def wrapdeg(x):
    return (x + 180.0) % 360.0 - 180.0


def chk_point_basic(a, brg, L):
    """distance / bearing / destination."""
    v = []
    b_ref = rg.sph_dest(a, brg, L)
    la, lo = dl.destination_radians(math.radians(a[0]), math.radians(a[1]), math.radians(brg), L)
    b = (math.degrees(la), math.degrees(lo))
    tol = 1e-6 + 1e-9 * L
    if rg.sph_dist(b, b_ref) > tol:
        v.append(f"destination({a},{brg},{L}) = {b}, reference {b_ref} ({rg.sph_dist(b, b_ref)} m apart)")
    d = dl.distance(a, b_ref)
    if abs(d - rg.sph_dist(a, b_ref)) > tol:
        v.append(f"distance({a},{b_ref}) = {d}, great-circle distance {rg.sph_dist(a, b_ref)}")
    if abs(d - L) > 2 * tol:
        v.append(f"distance to the destination at {L} m is {d}")
    if abs(dl.distance(b_ref, a) - d) > tol:
        v.append("distance is not symmetric")
    # destination inverts distance-and-bearing
    br = dl.bearing_radians(math.radians(a[0]), math.radians(a[1]), math.radians(b_ref[0]), math.radians(b_ref[1]))
    la2, lo2 = dl.destination_radians(math.radians(a[0]), math.radians(a[1]), br, d)
    back = (math.degrees(la2), math.degrees(lo2))
    if rg.sph_dist(back, b_ref) > 2 * tol:
        v.append(f"destination(a, bearing(a,b), distance(a,b)) = {back} is {rg.sph_dist(back, b_ref)} m from b = {b_ref}")
    if L >= 1.0 and abs(wrapdeg(math.degrees(br) - brg)) > 1e-4:
        v.append(f"bearing {math.degrees(br)} != {brg}")
    return v, b_ref


def chk_p2s(q, a, b, L):
    v = []
    rd, rpi, rt = rg.sph_pt_seg(q, a, b)
    try:
        d1, pi1, t1 = dl.distance_point_to_segment(q, a, b)
        d2, pi2, t2 = dl.distance_point_to_segment(q, b, a)
    except Exception as exc:  # noqa
        return [f"distance_point_to_segment({q},{a},{b}) raised {exc!r}"], "exc", True
    td = 0.05 + 1e-6 * rd
    tp = 0.25
    if abs(d1 - rd) > td:
        v.append(f"distance {d1} != reference {rd}")
    if rg.sph_dist(pi1, rpi) > tp:
        v.append(f"projection {pi1} is {rg.sph_dist(pi1, rpi)} m from the nearest point {rpi}")
    if not (0.0 <= t1 <= 1.0) or abs(t1 - rt) * L > tp:
        v.append(f"relative position {t1} != reference {rt}")
    zero = rg.sph_dist(a, b) == 0.0   # relative position on a zero-length segment is arbitrary
    if abs(d1 - d2) > td or rg.sph_dist(pi1, pi2) > tp or (not zero and abs(t1 - (1 - t2)) * L > tp):
        v.append(f"not invariant under swapping the end points: {(d1, pi1, t1)} vs {(d2, pi2, t2)}")
    # project() is the same computation
    pj, tj = dl.project(a, b, q)
    if rg.sph_dist(pj, pi1) > 1e-6 or abs(tj - t1) > 1e-12:
        v.append("project() disagrees with distance_point_to_segment()")
    cls = ("p2s", rt <= 0.0, rt >= 1.0, rd < 1e-3)
    return [f"distance_point_to_segment({q},{a},{b}): " + m for m in v], cls, (rt <= 0.0 or rt >= 1.0 or rd < 1e-3)


def _at(f1, f2, u):
    """point at relative position u on the geodesic from f1 to f2"""
    L = rg.sph_dist(f1, f2)
    if L == 0.0:
        return (f1[0], f1[1])
    return rg.sph_dest(f1, rg.sph_bearing(f1, f2), u * L)


def chk_s2s(f1, f2, t1, t2, lat, kind):
    v = []
    extent = max(rg.sph_dist(f1, x) for x in (f2, t1, t2)) + rg.sph_dist(t1, t2)
    tol = 0.05 + 3.0 * extent ** 2 * max(math.tan(math.radians(abs(lat))), 0.05) / R
    rd = rg.sph_segseg(f1, f2, t1, t2)
    try:
        d, pf, pt, uf, ut = dl.distance_segment_to_segment(f1, f2, t1, t2)
    except Exception as exc:  # noqa
        return [f"distance_segment_to_segment({f1},{f2},{t1},{t2}) raised {exc!r}"]
    if abs(d - rd) > tol:
        v.append(f"distance {d} != reference {rd} (tolerance {tol})")
    if not (0.0 <= uf <= 1.0 and 0.0 <= ut <= 1.0):
        v.append(f"relative positions {uf}, {ut} outside [0,1]")
    else:
        ef, et = _at(f1, f2, uf), _at(t1, t2, ut)
        if rg.sph_dist(pf, ef) > 0.25 + tol:
            v.append(f"point {pf} on the first segment is not at relative position {uf} (that is {ef})")
        if rg.sph_dist(pt, et) > 0.25 + tol:
            v.append(f"point {pt} on the second segment is not at relative position {ut} (that is {et})")
        if abs(rg.sph_dist(pf, pt) - rd) > 2 * tol + 0.25:
            v.append(f"returned points are {rg.sph_dist(pf, pt)} m apart, minimum is {rd}")
    # invariance under swapping the end points of either segment
    for (g1, g2, h1, h2, sf, stt) in ((f2, f1, t1, t2, True, False), (f1, f2, t2, t1, False, True)):
        try:
            d2, pf2, pt2, uf2, ut2 = dl.distance_segment_to_segment(g1, g2, h1, h2)
        except Exception as exc:  # noqa
            v.append(f"swapped call raised {exc!r}")
            continue
        if abs(d2 - d) > 2 * tol:
            v.append(f"distance changes from {d} to {d2} when end points are swapped")
        elif kind in ("skew", "cross", "touch", "skew-beyond-end", "skew-before-start"):
            # unique closest pair: points and relative positions must follow the swap
            if rg.sph_dist(pf, pf2) > 0.5 + 2 * tol or rg.sph_dist(pt, pt2) > 0.5 + 2 * tol:
                v.append(f"closest points move when end points are swapped: {(pf, pt)} vs {(pf2, pt2)}")
    return [f"distance_segment_to_segment({f1},{f2},{t1},{t2}) [{kind}]: " + m for m in v]


def placements(a, b, brg, L):
    mid = rg.sph_dest(a, brg, 0.5 * L)
    yield "cross", rg.sph_dest(mid, brg + 60.0, -0.4 * L), rg.sph_dest(mid, brg + 60.0, 0.7 * L)
    tp = rg.sph_dest(a, brg, 0.3 * L)
    yield "touch", tp, rg.sph_dest(tp, brg + 90.0, 0.8 * L)
    s = rg.sph_dest(rg.sph_dest(a, brg, 1.4 * L), brg + 90.0, 0.6 * L)
    yield "skew", s, rg.sph_dest(s, brg + 35.0, 0.9 * L)
    p1 = rg.sph_dest(rg.sph_dest(a, brg, 0.2 * L), brg + 90.0, 0.5 * L)
    yield "parallel", p1, rg.sph_dest(p1, brg, 1.1 * L)
    yield "collinear-overlap", rg.sph_dest(a, brg, 0.6 * L), rg.sph_dest(a, brg, 1.7 * L)
    yield "collinear-disjoint", rg.sph_dest(a, brg, 1.5 * L), rg.sph_dest(a, brg, 2.5 * L)
    # the second segment passes in front of the far end of the first: closest pair = end point b and an interior point
    e1 = rg.sph_dest(rg.sph_dest(a, brg, 1.3 * L), brg + 90.0, -0.5 * L)
    yield "skew-beyond-end", e1, rg.sph_dest(e1, brg + 90.0, 1.2 * L)
    # ... and behind its start: closest pair = end point a and an interior point
    e2 = rg.sph_dest(rg.sph_dest(a, brg, -0.4 * L), brg + 80.0, -0.6 * L)
    yield "skew-before-start", e2, rg.sph_dest(e2, brg + 80.0, 1.5 * L)


def chk_box(a, r):
    v = []
    try:
        bb = dl.box_around_point(a, r)
    except Exception as exc:  # noqa
        return [f"box_around_point({a},{r}) raised {exc!r}"]
    probes = [rg.sph_dest(a, k * 22.5, r * (1 - 1e-6)) for k in range(16)]
    # the two points of the circle of radius r(1-1e-6) with extreme longitude (tangent meridians)
    d = r * (1 - 1e-6) / R
    la = math.radians(a[0])
    lat_t = math.degrees(math.asin(max(-1.0, min(1.0, math.sin(la) / math.cos(d)))))
    dlon = math.degrees(math.asin(min(1.0, math.sin(d) / math.cos(la))))
    for sgn in (-1.0, 1.0):
        p = (lat_t, a[1] + sgn * dlon)
        if abs(rg.sph_dist(a, p) - r * (1 - 1e-6)) < 1e-6 * r + 1e-6:   # self-validation of the tangent formula
            probes.append(p)
    for p in probes:
        if not (bb[0] <= p[0] <= bb[2] and bb[1] <= p[1] <= bb[3]):
            v.append(f"box_around_point({a},{r}) = {bb} does not contain {p}, which is {rg.sph_dist(a, p)} m from the centre")
            break
    return v


def run_case(case):
    res = dict(n=0, st=0, tr=0, tv=0, nt=0, out=[], v=[], k=[])
    outs = set()
    lats, lons, nb, lens, fas, fcs = axes(case.get("tier", "quick"))
    a = (case["lat"], case["lon"])
    L = case["L"]
    bearings = case.get("bearings") or [i * 360.0 / nb for i in range(nb)]
    only = case.get("only")

    def add(viols, sub):
        res["n"] += 1
        res["st"] += 1
        res["tr"] += 4
        res["tv"] += 1
        for m in viols:
            mini = dict(case)
            mini.update(sub)
            res["v"].append({"msg": m, "case": mini})

    for brg in bearings:
        if only in (None, "basic"):
            viols, b = chk_point_basic(a, brg, L)
            add(viols, {"bearings": [brg], "only": "basic"})
        b = rg.sph_dest(a, brg, L)
        if only in (None, "p2s"):
            for fa in fas:
                for fc in fcs:
                    q = a if fa == 0 else rg.sph_dest(a, brg, fa * L)
                    if fc != 0:
                        q = rg.sph_dest(q, brg + 90.0, fc * L)
                    viols, cls, nontriv = chk_p2s(q, a, b, L)
                    outs.add(cls)
                    if nontriv:
                        res["nt"] += 1
                    add(viols, {"bearings": [brg], "only": "p2s"})
            # zero-length segment
            viols, cls, _ = chk_p2s(rg.sph_dest(a, brg, L), a, a, 1.0)
            outs.add(("zero",) + tuple(cls) if isinstance(cls, tuple) else cls)
            res["nt"] += 1
            add(viols, {"bearings": [brg], "only": "p2s"})
        if only in (None, "s2s"):
            for kind, t1, t2 in placements(a, b, brg, L):
                viols = chk_s2s(a, b, t1, t2, a[0], kind)
                outs.add(("s2s", kind))
                res["nt"] += 1
                add(viols, {"bearings": [brg], "only": "s2s"})
    if only in (None, "box") and L == lens[0]:
        for r in (10.0, 100.0, 1000.0, 20000.0):
            viols = chk_box(a, r)
            outs.add(("box", bool(viols)))
            res["nt"] += 1
            add(viols, {"only": "box"})
    res["out"] = sorted(outs, key=repr)
    return res


def describe(case):
    return {"anchor (lat, lon)": (case["lat"], case["lon"]), "segment length m": case["L"],
            "bearings": case.get("bearings", "all"), "part": case.get("only", "all primitives")}
