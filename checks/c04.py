"""C04 — the matched sequence is a walk in the road graph."""
from mc import bind  # noqa: F401
from mc import alphabet as al
from mc import mspace as ms
from mc.refmodel import check_walk
from checks import _pathspace as ps

ID = "C04"
TITLE = "The matched sequence is a walk in the road graph"
MANIFEST = {
    "text": "Over the shared graph/trace slice (one-way edges, dead ends, U-turn-only continuations, disconnected components arise from "
            "enumerating ALL directed edge subsets), additionally with self-listed neighbours, string labels, in-memory linked parallel "
            "edges and the SQLite backend, 3 families x non-emitting on/off x widths, one-shot and after every history of depth <= 2/3 "
            "over {match prefix, extend, widen}: every state on the best path is a node / directed edge of the INPUT graph, every "
            "consecutive pair is the same state or a move of the statement's relation, and on maps without linked edges the nodes-only "
            "view is computable, has no immediate repeats and follows directed edges in the direction of travel.",
    "note": "Trusted: the move relation in mc/refmodel.py, transcribed from the statement and evaluated on the input graph, not on the "
            "map object under test.",
    "technique": "bounded-exhaustive enumeration of inputs x configurations and of operation histories with the walk invariant on every result",
}
MANIFEST["text"] += " " + (
    'Added after the seeding waves: routes that go around a block twice (the same directed edge used twice) on the cycle graphs.')
BUDGET = {"quick": 900, "thorough": 3000}
RULE = ("states = path states checked for existence, transitions = consecutive pairs checked against the move relation, traces "
        "validated = nodes-only views computed and checked; non-trivial = the path changes state at least once; outcomes = (index, path shape).")
ASSUMPTIONS = ["linked edges only on the in-memory map (as in the statement)"]

C = ps.cfg
MAIN = [C(f, ne, av) for f in ms.FAMS for ne in (False, True) for av in (False, True)] + \
       [C(f, True, True, "none", w) for f in ms.FAMS for w in (1, 2)] + [C(f, True, True, "mpn0.3") for f in ms.FAMS]
N4 = [C(f, True, True) for f in ms.FAMS] + [C(f, False, False) for f in ms.FAMS] + [C("D", True, True, "none", 1), C("SN", True, False, "none", 2)]
HIST = [C("D", True, True, "none", 1), C("S", True, False, "none", 1), C("SN", True, True, "none", 1)]


def cfgs_for(sl):
    return MAIN if sl in ("n3", "special") else N4


def space(tier):
    return {"configurations": len(MAIN), "configurations_n4": len(N4), "history_configurations": HIST,
            "variants": ["plain", "self-listed neighbours", "string labels", "linked edges (4 nodes)", "sqlite backend (n<=3)"]}


def linked_for(graph):
    """Link every edge to every node-disjoint edge (the in-memory 'parallel road' relation), deterministic."""
    es = [(a, b) for a, v in graph.items() for b in v[1] if a != b]
    lk = {}
    for e in es:
        for f in es:
            if len({e[0], e[1], f[0], f[1]}) == 4:
                lk.setdefault(e, set()).add(f)
    return lk


def cases(tier):
    for c in ps.cases(tier, with_hist=True):
        c["tier"] = tier
        c["variant"] = "plain"
        yield c
    for gs in ms.graph_slice("n3"):
        for variant in ("selfnbr", "str", "sqlite"):
            if variant == "sqlite" and (gs[0] == "GRID" and tier == "quick"):
                continue
            yield {"kind": "run", "gs": list(gs), "slice": "n3", "T": 2 if variant != "selfnbr" else 3, "variant": variant, "tier": tier}
    for gs in ms.graph_slice("n4e2" if tier == "quick" else "n4e4"):
        if gs[1] == 4 and al.nedges(gs[2]) >= 2:
            yield {"kind": "run", "gs": list(gs), "slice": "n4", "T": 2, "variant": "linked", "tier": tier}
    for name, pos, g in ms.special_graphs():
        if "complete4" in name or "cycle4" in name:
            yield {"kind": "run", "gs": ms.explicit(g), "pos": pos, "slice": "special", "name": name, "variant": "linked", "tier": tier}
    # routes that go around a block more than once (the same directed edge is used twice, not consecutively)
    for name, pos, g in ms.special_graphs():
        if "cycle4" in name or "complete4" in name:
            P = [v[0] for v in g.values()]
            near = [(p[0] + 0.13, p[1] - 0.11) for p in P]
            mid = [((P[i][0] + P[(i + 1) % 4][0]) / 2 + 0.07, (P[i][1] + P[(i + 1) % 4][1]) / 2 - 0.05) for i in range(4)]
            for loop in ([mid[0], mid[1], mid[2], mid[3], mid[0], mid[1]], [near[0], near[1], near[2], near[3], near[0], near[1], near[2]],
                         [mid[0], mid[2], mid[0], mid[2], mid[1]], [mid[3], mid[2], mid[1], mid[0], mid[3], mid[2]]):
                yield {"kind": "run", "gs": ms.explicit(g), "pos": pos, "slice": "special", "name": name, "variant": "plain", "tier": tier,
                       "trace": loop, "loop": True}


def make_judge(linked):
    def judge(m, r, graph, trace, c, unique, ctx):
        if isinstance(r, Exception):
            return [(None, f"raised {r!r}")] if not ctx["expand"] else []
        if not (isinstance(r, tuple) and len(r) == 2) or not m.lattice_best:
            return []
        out = []
        lb = m.lattice_best
        if any(a.edge_m.label != b.edge_m.label for a, b in zip(lb, lb[1:])):
            out.append(("NT", ""))
        for msg in check_walk(m, graph, linked):
            out.append((None, msg))
        # the returned states are the path's states: they must name map elements too
        for s in r[0]:
            st = s if isinstance(s, tuple) else (s,)
            if len(st) == 1 and st[0] not in graph or len(st) == 2 and not (st[0] in graph and st[1] in graph[st[0]][1]):
                out.append((None, f"returned state {s} is not a node / directed edge of the map"))
                break
        return out
    return judge


def run_case(case):
    res = dict(n=0, st=0, tr=0, tv=0, nt=0, out=[], v=[], k=[])
    if case.get("loop") and "cfg" not in case:
        out = res
        for c in MAIN:
            r = run_case(dict(case, cfg=c))
            for key in ("n", "st", "tr", "tv", "nt"):
                out[key] += r[key]
            out["v"] += r["v"]
            out["out"] = sorted(set(map(repr, out["out"])) | set(map(repr, r["out"])))[:200]
        out["v"] = out["v"][:10]
        return out
    depth = 3 if (case.get("tier") == "thorough" or case.get("slice") == "hist-special") else 2
    variant = case.get("variant", "plain")
    if variant in ("selfnbr", "str") and not isinstance(case["gs"], dict):
        g = ms.build_graph(tuple(case["gs"]), labels="str" if variant == "str" else "int", selfnbr=(variant == "selfnbr"))
        case = dict(case, gs=ms.explicit(g), pos=case["gs"][0])
    linked = None
    if variant == "linked":
        linked = linked_for(ps.graph_of(case))
    return ps.run(case, cfgs_for, make_judge(linked), res, hist_cfgs=HIST, hist_depth=depth,
                  backend="sqlite" if variant == "sqlite" else "inmem", linked=linked)


def describe(case):
    return {k: case[k] for k in case if k != "tier"}
